#!/bin/bash
# sweep.sh <tier> <seed>... : runs every claimed check at the given seeds, reports the ones that do not exit 0
tier="${1:-quick}"; shift
cd "$(dirname "$0")"
fail=0
for seed in "$@"; do
  for id in C01 C02 C03 C04 C05 C06 C07 C08 C09 C10 C11 C12 C13 C14 C15 C16 C17 C18 C19 C20; do
    out=$(VERIF_SEED=$seed ./run.sh check $id $tier 2>&1); rc=$?
    if [ $rc -ne 0 ]; then fail=1; echo "== $id seed=$seed tier=$tier exit=$rc"; echo "$out" | grep -v '^VIOLATION' | head -12; fi
  done
  echo "seed $seed done"
done
exit $fail
