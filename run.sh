#!/bin/bash
# Entry point registered in MANIFEST.json.
#   run.sh check <Cxx> [quick|thorough]   rebuild the checker from /repo's working tree (-tags verif) and run one property
#   run.sh replay <file>                  re-execute the case of a replay file, verbosely
#   run.sh setup                          warm the build cache (offline)
# Exit: 0 held on everything explored / 1 VIOLATION printed / 2 inconclusive / 64 harness error
set -u
ROOT="$(cd "$(dirname "${BASH_SOURCE[0]}")" && pwd)"
export VERIF_ROOT="$ROOT"
export GOFLAGS=-mod=mod GOPROXY=off GOSUMDB=off GOTOOLCHAIN=local CGO_ENABLED=1
export GOCACHE="${GOCACHE:-$HOME/.cache/go-build}"
cmd="${1:-}"; shift || true
BUILD="$ROOT/.build/$$"
mkdir -p "$BUILD"
trap 'rm -rf "$BUILD"' EXIT
export VERIF_WORKDIR="$BUILD"

REPO="${VERIF_REPO:-/repo}"   # the tree under test; VERIF_REPO points the self-test at a scratch worktree

build() { # $1 = extra go build flags
  sed "s#=> /repo#=> $REPO#" "$ROOT/harness/go.mod" > "$BUILD/go.mod" && cp "$REPO/go.sum" "$BUILD/go.sum" || { echo "build failed (module files)" >&2; exit 64; }
  (cd "$ROOT/harness" && go build -modfile="$BUILD/go.mod" -tags verif $1 -o "$BUILD/vcheck" ./cmd/vcheck) || { echo "build failed" >&2; exit 64; }
}

case "$cmd" in
  setup)
    build "" && build "-race" && echo "setup ok"
    ;;
  check)
    id="${1:?property id}"; tier="${2:-${VERIF_TIER:-quick}}"
    flags=""
    [ "$id" = "C20" ] && flags="-race"
    if [ "$tier" = "thorough" ] && [ "$id" != "C20" ]; then
      # thorough: also measure which statements of the library the workload reaches (reported in the evidence)
      flags="-cover -coverpkg=github.com/jawher/mow.cli/...,verif/cmd/vcheck"
      export VERIF_COVER=1
      mkdir -p "$BUILD/cov0"; export GOCOVERDIR="$BUILD/cov0"   # the parent process is instrumented too
    fi
    build "$flags"
    "$BUILD/vcheck" run "$id" -tier "$tier"
    exit $?
    ;;
  replay)
    f="${1:?replay file}"
    flags=""
    case "$f" in */C20/*) flags="-race";; esac
    build "$flags"
    "$BUILD/vcheck" replay "$f"
    exit $?
    ;;
  *)
    echo "usage: run.sh check <Cxx> [quick|thorough] | replay <file> | setup" >&2
    exit 64
    ;;
esac
