// vcheck: runtime monitors for jawher/mow.cli (see /verif/DESIGN.md)
package main

import (
	"flag"
	"fmt"
	"os"
	"strconv"

	_ "verif/checks"
	"verif/core"
)

func main() {
	if len(os.Args) < 2 {
		fmt.Fprintln(os.Stderr, "usage: vcheck run <id> [-tier quick|thorough] | vcheck replay <file> | vcheck list")
		os.Exit(64)
	}
	switch os.Args[1] {
	case "worker":
		os.Exit(core.WorkerMain(os.Args[2:]))
	case "child":
		if len(os.Args) < 3 || core.Children[os.Args[2]] == nil {
			os.Exit(64)
		}
		os.Exit(core.Children[os.Args[2]](os.Args[3:]))
	case "list":
		for _, id := range core.IDs() {
			fmt.Println(id, core.Lookup(id).Title)
		}
	case "replay":
		if len(os.Args) < 3 {
			os.Exit(64)
		}
		os.Exit(core.ReplayMain(os.Args[2]))
	case "run":
		if len(os.Args) < 3 {
			os.Exit(64)
		}
		fs := flag.NewFlagSet("run", flag.ExitOnError)
		tier := fs.String("tier", "", "")
		fs.Parse(os.Args[3:])
		if *tier == "" {
			*tier = os.Getenv("VERIF_TIER")
		}
		if *tier != "thorough" {
			*tier = "quick"
		}
		seed := int64(1)
		if s := os.Getenv("VERIF_SEED"); s != "" {
			if v, err := strconv.ParseInt(s, 10, 64); err == nil {
				seed = v
			}
		}
		os.Exit(core.RunMain(os.Args[2], *tier, seed))
	default:
		os.Exit(64)
	}
}
