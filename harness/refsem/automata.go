package refsem

import (
	"fmt"
	"sort"
	"strings"
)

// generic eps-NFA over string symbols
type GNFA struct {
	N     int
	Eps   [][]int
	Tr    []map[string][]int
	Final []bool
	Start int
}

func (g *GNFA) closure(set map[int]bool) map[int]bool {
	stack := []int{}
	for s := range set {
		stack = append(stack, s)
	}
	for len(stack) > 0 {
		s := stack[len(stack)-1]
		stack = stack[:len(stack)-1]
		for _, t := range g.Eps[s] {
			if !set[t] {
				set[t] = true
				stack = append(stack, t)
			}
		}
	}
	return set
}

func setKey(m map[int]bool) string {
	var ks []int
	for k := range m {
		ks = append(ks, k)
	}
	sort.Ints(ks)
	return fmt.Sprint(ks)
}

func (g *GNFA) isFinal(set map[int]bool) bool {
	for s := range set {
		if g.Final[s] {
			return true
		}
	}
	return false
}

func (g *GNFA) step(set map[int]bool, sym string) map[int]bool {
	out := map[int]bool{}
	for s := range set {
		for _, t := range g.Tr[s][sym] {
			out[t] = true
		}
	}
	return g.closure(out)
}

// Equivalent checks language equality by exploring the product of the two determinised automata; returns a distinguishing word
func Equivalent(a, b *GNFA, alphabet []string) (bool, []string) {
	type pair struct {
		sa, sb map[int]bool
		word   []string
	}
	sa := a.closure(map[int]bool{a.Start: true})
	sb := b.closure(map[int]bool{b.Start: true})
	seen := map[string]bool{}
	queue := []pair{{sa, sb, nil}}
	seen[setKey(sa)+"#"+setKey(sb)] = true
	for len(queue) > 0 {
		p := queue[0]
		queue = queue[1:]
		if a.isFinal(p.sa) != b.isFinal(p.sb) {
			return false, p.word
		}
		for _, sym := range alphabet {
			na, nb := a.step(p.sa, sym), b.step(p.sb, sym)
			k := setKey(na) + "#" + setKey(nb)
			if !seen[k] {
				seen[k] = true
				queue = append(queue, pair{na, nb, append(append([]string{}, p.word...), sym)})
			}
		}
	}
	return true, nil
}

func SymOf(kind string, names []string) string {
	return kind + ":" + strings.Join(names, ",")
}

// RefGNFA builds the reference automaton over abstract symbols; regexGroups selects how option groups appear: as one
// "grp" symbol (the implementation's group matcher) or as a loop over "opt" symbols ((o1|..|on)+)
func RefGNFA(p *Prog, regexGroups bool) (*GNFA, map[string]bool) {
	n := BuildNFA(p, regexGroups)
	g := &GNFA{N: len(n.tr), Start: n.Start}
	g.Eps = make([][]int, g.N)
	g.Tr = make([]map[string][]int, g.N)
	g.Final = make([]bool, g.N)
	g.Final[n.Final] = true
	syms := map[string]bool{}
	for s, ts := range n.tr {
		g.Tr[s] = map[string][]int{}
		for _, t := range ts {
			var sym string
			switch t.k {
			case tEps:
				g.Eps[s] = append(g.Eps[s], t.to)
				continue
			case tOpt:
				sym = SymOf("opt", []string{t.Opt.Dashed()[0]})
			case tGroup:
				var ns []string
				for _, o := range t.grp {
					ns = append(ns, o.Dashed()[0])
				}
				sym = SymOf("grp", ns)
			case tArg:
				sym = SymOf("arg", []string{t.arg.Name})
			case tDD:
				sym = "dd:"
			}
			syms[sym] = true
			g.Tr[s][sym] = append(g.Tr[s][sym], t.to)
		}
	}
	return g, syms
}
