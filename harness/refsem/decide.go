package refsem

import (
	"strconv"
	"strings"
)

// memoised reference decision procedure

type Verdict struct {
	Accept    bool
	Unclaimed bool
	OptBind   map[*OptDecl][]string // path independent inside the claimed zone
	Steps     int
}

type m2 struct {
	p    *Prog
	n    *NFA
	argv []string
	// constrained arg search: nil => acceptance only
	want   map[*ArgDecl][]string
	wantO  map[*OptDecl][]string
	memo   map[string]bool // failed configurations
	uncl   bool
	steps  int
	trace  []Occ // option occurrences consumed on the accepting path, reversed
	hasDD  bool
	hard   bool
	capped bool
	// run keys are interned: a run is an immutable slice, identified by its first element and length
	rkBySlice map[sliceID]int
	rkByText  map[string]int
	reads     map[int]readRes
}

type readRes struct {
	run []Occ
	j   int
	bad int
}

type sliceID struct {
	p *Occ
	n int
}

func (m *m2) runID(run []Occ) int {
	if len(run) == 0 {
		return 0
	}
	if m.rkBySlice == nil {
		m.rkBySlice = map[sliceID]int{}
		m.rkByText = map[string]int{}
	}
	sid := sliceID{&run[0], len(run)}
	if id, ok := m.rkBySlice[sid]; ok {
		return id
	}
	txt := runKey(run)
	id, ok := m.rkByText[txt]
	if !ok {
		id = len(m.rkByText) + 1
		m.rkByText[txt] = id
	}
	m.rkBySlice[sid] = id
	return id
}

func (m *m2) norm(c cfg) cfg {
	if c.ended {
		return c
	}
	if len(c.run) == 0 {
		rr, ok := m.reads[c.i]
		if !ok {
			rr.run, rr.j = ReadRun(m.p, m.argv, c.i)
			rr.bad = BadKind(m.p, m.argv, rr.j)
			if m.reads == nil {
				m.reads = map[int]readRes{}
			}
			m.reads[c.i] = rr
		}
		c.run, c.i = rr.run, rr.j
		if m.hasDD && rr.bad == 2 {
			m.uncl = true
			m.hard = true
		}
	}
	if len(c.run) == 0 && c.i < len(m.argv) && m.argv[c.i] == "--" {
		c.ended = true
		c.i++
	}
	return c
}

func (m *m2) key(c cfg, used []int) string {
	var sb strings.Builder
	sb.WriteString(strconv.Itoa(c.q))
	sb.WriteByte('|')
	sb.WriteString(strconv.Itoa(c.i))
	if c.ended {
		sb.WriteByte('E')
	}
	sb.WriteByte('|')
	sb.WriteString(strconv.Itoa(m.runID(c.run)))
	for _, u := range used {
		sb.WriteByte('|')
		sb.WriteString(strconv.Itoa(u))
	}
	return sb.String()
}

// used[k] = number of values of arg k already matched against want
// MaxRefSteps bounds the reference search; beyond it the case is unclaimed (never a verdict)
const MaxRefSteps = 400000

func (m *m2) ok(c cfg, used []int) bool {
	m.steps++
	if m.steps > MaxRefSteps {
		m.capped = true
		return false
	}
	c = m.norm(c)
	k := m.key(c, used)
	if m.memo[k] {
		return false
	}
	m.memo[k] = true // also cuts cycles: a configuration on the current path cannot help
	if c.q == m.n.Final && len(c.run) == 0 && c.i == len(m.argv) {
		if m.want == nil {
			return true
		}
		all := true
		for ai, a := range m.p.Args {
			if used[ai] != len(m.want[a]) {
				all = false
			}
		}
		for oi, o := range m.p.Opts {
			if used[len(m.p.Args)+oi] != len(m.wantO[o]) {
				all = false
			}
		}
		if all {
			return true
		}
	}
	for _, t := range m.n.tr[c.q] {
		switch t.k {
		case tEps:
			if m.ok(cfg{t.to, c.i, c.ended, c.run}, used) {
				return true
			}
		case tDD:
			if len(c.run) > 0 {
				m.uncl = true
				continue
			}
			if m.ok(cfg{t.to, c.i, true, nil}, used) {
				return true
			}
		case tOpt:
			idx := -1
			if !c.ended {
				for x, oc := range c.run {
					if oc.Opt == t.Opt {
						idx = x
						break
					}
				}
			}
			if idx < 0 {
				if t.Opt.EnvSet {
					if t.strict {
						m.uncl = true
						continue
					}
					if m.ok(cfg{t.to, c.i, c.ended, c.run}, used) {
						return true
					}
				}
				continue
			}
			nrun := append(append([]Occ{}, c.run[:idx]...), c.run[idx+1:]...)
			nu := used
			if m.want != nil {
				var okc bool
				nu, okc = m.useOpt(used, c.run[idx])
				if !okc {
					continue
				}
			}
			if m.ok(cfg{t.to, c.i, c.ended, nrun}, nu) {
				m.trace = append(m.trace, c.run[idx])
				return true
			}
		case tGroup:
			if c.ended {
				m.noteEnvGroup(t.grp)
				continue
			}
			var nrun, taken []Occ
			took := 0
			for _, oc := range c.run {
				if InGroup(t.grp, oc.Opt) {
					took++
					taken = append(taken, oc)
				} else {
					nrun = append(nrun, oc)
				}
			}
			if took == 0 {
				m.noteEnvGroup(t.grp)
				continue
			}
			nu := used
			if m.want != nil {
				okc := true
				for _, oc := range taken {
					nu, okc = m.useOpt(nu, oc)
					if !okc {
						break
					}
				}
				if !okc {
					continue
				}
			}
			if m.ok(cfg{t.to, c.i, c.ended, nrun}, nu) {
				for x := len(taken) - 1; x >= 0; x-- {
					m.trace = append(m.trace, taken[x])
				}
				return true
			}
		case tArg:
			if len(c.run) > 0 || c.i >= len(m.argv) {
				continue
			}
			tok := m.argv[c.i]
			if !c.ended && strings.HasPrefix(tok, "-") && tok != "-" {
				continue
			}
			if m.want != nil {
				ai := m.argIndex(t.arg)
				w := m.want[t.arg]
				if used[ai] >= len(w) || w[used[ai]] != tok {
					continue
				}
				nu := append([]int{}, used...)
				nu[ai]++
				if m.ok(cfg{t.to, c.i + 1, c.ended, nil}, nu) {
					return true
				}
				continue
			}
			if m.ok(cfg{t.to, c.i + 1, c.ended, nil}, used) {
				return true
			}
		}
	}
	return false
}

func (m *m2) useOpt(used []int, oc Occ) ([]int, bool) {
	oi := -1
	for i, o := range m.p.Opts {
		if o == oc.Opt {
			oi = i
		}
	}
	k := len(m.p.Args) + oi
	w := m.wantO[oc.Opt]
	if used[k] >= len(w) || w[used[k]] != oc.Val {
		return used, false
	}
	nu := append([]int{}, used...)
	nu[k]++
	return nu, true
}

func (m *m2) noteEnvGroup(g []*OptDecl) {
	for _, o := range g {
		if o.EnvSet {
			m.uncl = true
		}
	}
}

func (m *m2) argIndex(a *ArgDecl) int {
	for i, x := range m.p.Args {
		if x == a {
			return i
		}
	}
	return -1
}

func InGroup(g []*OptDecl, o *OptDecl) bool {
	for _, x := range g {
		if x == o {
			return true
		}
	}
	return false
}

// FoldedEq: token of the unclaimed '-ab=v' shape (a short cluster whose first letter is a declared flag and that carries '=' later)
func FoldedEq(p *Prog, argv []string) bool {
	for _, t := range argv {
		if t == "--" {
			return false
		}
		if len(t) > 3 && t[0] == '-' && t[1] != '-' && t[2] != '=' && strings.Contains(t, "=") {
			if o := p.OptByDashed(t[:2]); o != nil && o.Flag {
				return true
			}
		}
	}
	return false
}

// zone4Token: under a spec with a spec-level --, some token before the first command-line -- starts with a dash, is not
// the start of a well-formed occurrence, and is one the implementation partly consumes or skips (BadKind 2). Whether the
// search happens to visit it with options open depends on the order alternatives are tried in, so the zone is decided on
// the command line itself: such a case is unclaimed as a whole.
func zone4Token(p *Prog, argv []string) bool {
	if !p.HasDD() {
		return false
	}
	for j := 0; j < len(argv); j++ {
		if argv[j] == "--" {
			return false
		}
		if run, stop := ReadRun(p, argv, j); len(run) == 0 && stop == j && BadKind(p, argv, j) == 2 {
			return true
		}
	}
	return false
}

func Decide(p *Prog, n *NFA, argv []string) Verdict {
	m := &m2{p: p, n: n, argv: argv, memo: map[string]bool{}, hasDD: p.HasDD()}
	if zone4Token(p, argv) {
		m.uncl, m.hard = true, true
	}
	used := make([]int, len(p.Args)+len(p.Opts))
	acc := m.ok(cfg{q: n.Start}, used)
	v := Verdict{Accept: acc, Unclaimed: (m.uncl && !acc) || m.hard || m.capped, Steps: m.steps}
	if FoldedEq(p, argv) {
		v.Unclaimed = true
	}
	if acc {
		v.OptBind = map[*OptDecl][]string{}
		for x := len(m.trace) - 1; x >= 0; x-- {
			oc := m.trace[x]
			v.OptBind[oc.Opt] = append(v.OptBind[oc.Opt], oc.Val)
		}
	}
	return v
}

func Admits(p *Prog, n *NFA, argv []string, want map[*ArgDecl][]string, wantO map[*OptDecl][]string) (bool, bool) {
	m := &m2{p: p, n: n, argv: argv, memo: map[string]bool{}, want: want, wantO: wantO, hasDD: p.HasDD()}
	if want == nil {
		m.want = map[*ArgDecl][]string{}
	}
	if zone4Token(p, argv) {
		m.uncl, m.hard = true, true
	}
	used := make([]int, len(p.Args)+len(p.Opts))
	ok := m.ok(cfg{q: n.Start}, used)
	if m.capped {
		return false, true
	}
	return ok, m.uncl
}

// HasUndeclaredEq: an undeclared "-x=..." token before the end of options (only matters with a spec level --)
func HasUndeclaredEq(p *Prog, argv []string) bool {
	for _, t := range argv {
		if t == "--" {
			return false
		}
		if len(t) >= 3 && t[0] == '-' && t[1] != '-' && t[2] == '=' && p.OptByDashed(t[:2]) == nil {
			return true
		}
	}
	return false
}

// AdmitsEither: the binding is admitted under the maximal-munch or under the regular-expression reading of option groups
// (an implementation is free to be either)
func AdmitsEither(p *Prog, argv []string, want map[*ArgDecl][]string, wantO map[*OptDecl][]string) (bool, bool) {
	adm, uncl := Admits(p, BuildNFA(p, false), argv, want, wantO)
	if adm {
		return true, uncl
	}
	adm2, uncl2 := Admits(p, BuildNFA(p, true), argv, want, wantO)
	return adm2, uncl || uncl2
}
