package refsem

import "fmt"

// reference recogniser for spec strings

type Tok struct {
	Typ        string // Arg Options Short Long Seq Val DD Rep ( ) [ ] |
	Text       string
	Start, End int
}

type SpecVerdict struct {
	Ok        bool
	Unclaimed bool
	// acceptable error position ranges [lo,hi]
	ErrLo, ErrHi int
	Msg          string
	Toks         []Tok
}

func isUp(c byte) bool    { return c >= 'A' && c <= 'Z' }
func isLow(c byte) bool   { return c >= 'a' && c <= 'z' }
func isLet(c byte) bool   { return isUp(c) || isLow(c) }
func isDig(c byte) bool   { return c >= '0' && c <= '9' }
func isBlank(c byte) bool { return c == ' ' || c == '\t' }

func RefLex(s string) (toks []Tok, errLo, errHi int, Unclaimed bool, ok bool) {
	i := 0
	n := len(s)
	for i < n {
		c := s[i]
		switch {
		case isBlank(c):
			i++
		case c == '[' || c == ']' || c == '(' || c == ')' || c == '|':
			toks = append(toks, Tok{string(c), string(c), i, i + 1})
			i++
		case c == '.':
			if i+2 < n+0 && s[i+1] == '.' && s[i+2] == '.' {
				toks = append(toks, Tok{"Rep", "...", i, i + 3})
				i += 3
			} else {
				e := i
				for e < n && s[e] == '.' {
					e++
				}
				return nil, i, e, false, false
			}
		case c == '-':
			if i+1 >= n {
				return nil, i, n, false, false
			}
			d := s[i+1]
			switch {
			case isLet(d):
				j := i + 1
				for j < n && isLet(s[j]) {
					j++
				}
				if j < n && s[j] == '-' {
					return nil, i, j + 1, false, false
				}
				if j-i == 2 {
					toks = append(toks, Tok{"Short", s[i:j], i, j})
				} else {
					toks = append(toks, Tok{"Seq", s[i:j], i, j})
				}
				i = j
			case d == '-':
				j := i + 2
				if j >= n || s[j] == ' ' {
					toks = append(toks, Tok{"DD", "--", i, j})
					i = j
					continue
				}
				if !(isLet(s[j]) || isDig(s[j]) || s[j] == '_') {
					// "--" glued to something that is neither a blank nor the start of a name (`--]`, `--|`, `--(`, a
					// tab): the lexer asks for a long option name there
					return nil, i, j + 1, false, false
				}
				for j < n && (isLet(s[j]) || isDig(s[j]) || s[j] == '_' || s[j] == '-') {
					j++
				}
				toks = append(toks, Tok{"Long", s[i:j], i, j})
				i = j
			default:
				// dangling dash
				return nil, i, i + 2, false, false
			}
		case c == '=':
			if i+1 >= n || s[i+1] != '<' {
				return nil, i, min(i+2, n), false, false
			}
			j := i + 2
			for j < n && s[j] != '>' {
				j++
			}
			if j >= n {
				return nil, i, n, false, false
			}
			if j == i+2 {
				return nil, i, j + 1, false, false
			}
			toks = append(toks, Tok{"Val", s[i : j+1], i, j + 1})
			i = j + 1
		case isUp(c):
			j := i + 1
			for j < n && (isUp(s[j]) || isDig(s[j]) || s[j] == '_') {
				j++
			}
			t := "Arg"
			if s[i:j] == "OPTIONS" {
				t = "Options"
			}
			toks = append(toks, Tok{t, s[i:j], i, j})
			i = j
		default:
			return nil, i, i + 1, false, false
		}
	}
	return toks, 0, 0, false, true
}

type sparser struct {
	Toks   []Tok
	pos    int
	n      int // len(spec)
	Opts   map[string]bool
	Args   map[string]bool
	ddSeen bool
}

type synErr struct {
	lo, hi int
	msg    string
}

func (p *sparser) peek() string {
	if p.pos >= len(p.Toks) {
		return "EOF"
	}
	return p.Toks[p.pos].Typ
}

func (p *sparser) fail(msg string) {
	if p.pos >= len(p.Toks) {
		panic(synErr{p.n, p.n, msg})
	}
	t := p.Toks[p.pos]
	panic(synErr{t.Start, t.End, msg})
}

func (p *sparser) canAtom() bool {
	switch p.peek() {
	case "Arg", "Options", "Short", "Long", "Seq", "(", "[", "DD":
		return true
	}
	return false
}

func (p *sparser) seq(req bool) {
	if req {
		p.choice()
	}
	for p.canAtom() {
		p.choice()
	}
}

func (p *sparser) choice() {
	p.atom()
	for p.peek() == "|" {
		p.pos++
		p.atom()
	}
}

func (p *sparser) atom() {
	switch p.peek() {
	case "Arg":
		if !p.Args[p.Toks[p.pos].Text] {
			p.fail("undeclared arg")
		}
		p.pos++
	case "Options":
		if p.ddSeen {
			p.fail("option after --")
		}
		p.pos++
	case "Short", "Long":
		if p.ddSeen {
			p.fail("option after --")
		}
		if !p.Opts[p.Toks[p.pos].Text] {
			p.fail("undeclared option")
		}
		p.pos++
		if p.peek() == "Val" {
			p.pos++
		}
	case "Seq":
		if p.ddSeen {
			p.fail("option after --")
		}
		t := p.Toks[p.pos].Text
		for k := 1; k < len(t); k++ {
			if !p.Opts["-"+t[k:k+1]] {
				p.fail("undeclared option in seq")
			}
		}
		p.pos++
	case "(":
		p.pos++
		p.seq(true)
		if p.peek() != ")" {
			p.fail("expected )")
		}
		p.pos++
	case "[":
		p.pos++
		p.seq(true)
		if p.peek() != "]" {
			p.fail("expected ]")
		}
		p.pos++
	case "DD":
		p.ddSeen = true
		p.pos++
		return
	default:
		p.fail("expected atom")
	}
	if p.peek() == "Rep" {
		p.pos++
	}
}

func RefSpec(s string, opts, args map[string]bool) (v SpecVerdict) {
	toks, lo, hi, unc, ok := RefLex(s)
	if !ok {
		return SpecVerdict{Ok: false, Unclaimed: unc, ErrLo: lo, ErrHi: hi, Msg: "lex"}
	}
	v.Toks = toks
	p := &sparser{Toks: toks, n: len(s), Opts: opts, Args: args}
	defer func() {
		if r := recover(); r != nil {
			if e, ok := r.(synErr); ok {
				v = SpecVerdict{Ok: false, ErrLo: e.lo, ErrHi: e.hi, Msg: e.msg, Toks: toks}
				return
			}
			panic(r)
		}
	}()
	p.seq(false)
	if p.pos < len(p.Toks) {
		p.fail("unexpected input")
	}
	v.Ok = true
	return
}

var _ = fmt.Sprint
