package refsem

import (
	"strings"
)

// ---- declarations ----

type OptDecl struct {
	Names  []string // without dashes
	Flag   bool     // bool flag
	Multi  bool
	EnvSet bool   // backed by a set, valid env var
	EnvVal string // the value of that variable (default: "true" for flags, "envval" otherwise)
	Int    bool   // typed declaration: values must be base-10 integers (trees of C07)
	Hide   bool   // declared with HideValue (only the help may differ)
}

func (o *OptDecl) Dashed() []string {
	var r []string
	for _, n := range o.Names {
		if len(n) == 1 {
			r = append(r, "-"+n)
		} else {
			r = append(r, "--"+n)
		}
	}
	return r
}

type ArgDecl struct {
	Name   string
	Multi  bool
	Int    bool
	EnvSet bool // backed by a set environment variable (value "argenv")
	Hide   bool // declared with HideValue (only the help may differ)
	// FlagLike: the argument's value type says IsBoolFlag (as BoolArg does); Default: a non-empty declared default.
	// Neither changes what the spec, generated or written, accepts.
	FlagLike bool
	Default  string
	// BuiltinInt: declared through the built-in IntArg (a single integer; no recorder behind it)
	BuiltinInt bool
}

type Prog struct {
	Opts []*OptDecl
	Args []*ArgDecl
	Spec string
	AST  *Node
}

func (p *Prog) OptByDashed(n string) *OptDecl {
	for _, o := range p.Opts {
		for _, d := range o.Dashed() {
			if d == n {
				return o
			}
		}
	}
	return nil
}

// ---- AST ----

type Kind int

const (
	KSeq Kind = iota
	KChoice
	KOptional // [ x ]
	KGroup    // ( x )
	KRep      // x...
	KOpt
	KOptGroup // -abc
	KAllOpts  // OPTIONS (bare; usually wrapped in optional)
	KArg
	KDD
)

type Node struct {
	K    Kind
	Kids []*Node
	Opt  *OptDecl
	Opts []*OptDecl
	Arg  *ArgDecl
	// rendering choices
	Name  string
	Annot string
}

func (n *Node) String() string {
	switch n.K {
	case KSeq:
		var ps []string
		for _, k := range n.Kids {
			ps = append(ps, k.String())
		}
		return strings.Join(ps, " ")
	case KChoice:
		var ps []string
		for _, k := range n.Kids {
			ps = append(ps, k.String())
		}
		return strings.Join(ps, " | ")
	case KOptional:
		return "[" + closeDD(n.Kids[0].String()) + "]"
	case KGroup:
		return "(" + closeDD(n.Kids[0].String()) + ")"
	case KRep:
		return n.Kids[0].String() + "..."
	case KOpt:
		return n.Name + n.Annot
	case KOptGroup:
		s := "-"
		for _, o := range n.Opts {
			s += o.Names[0]
		}
		return s
	case KAllOpts:
		return "OPTIONS"
	case KArg:
		return n.Arg.Name
	case KDD:
		return "--"
	}
	return "?"
}

// closeDD keeps a trailing -- apart from the closing bracket: "--]" is outside the claimed grammar (DESIGN 3.1)
func closeDD(s string) string {
	if strings.HasSuffix(s, "--") {
		return s + " "
	}
	return s
}

// HasDD reports whether the spec contains a spec-level --
func (p *Prog) HasDD() bool {
	if p.AST == nil {
		toks, _, _, _, ok := RefLex(p.Spec)
		if !ok {
			return strings.Contains(p.Spec, "--")
		}
		for _, t := range toks {
			if t.Typ == "DD" {
				return true
			}
		}
		return false
	}
	var walk func(n *Node) bool
	walk = func(n *Node) bool {
		if n.K == KDD {
			return true
		}
		for _, k := range n.Kids {
			if walk(k) {
				return true
			}
		}
		return false
	}
	return walk(p.AST)
}
