package refsem

import (
	"sort"
	"strings"
)

type refResult struct {
	accept    bool
	unclaimed bool // some path needed an unclaimed rule
	bindings  map[string]bool
	paths     int
}

type enumerator struct {
	p     *Prog
	n     *NFA
	argv  []string
	res   *refResult
	steps int
	// cycle guard: configurations on the current DFS path
	onpath map[string]bool
}

func (m *enumerator) normalize(c cfg) cfg {
	if c.ended {
		return c
	}
	if len(c.run) == 0 {
		c.run, c.i = ReadRun(m.p, m.argv, c.i)
	}
	if len(c.run) == 0 && c.i < len(m.argv) && m.argv[c.i] == "--" {
		c.ended = true
		c.i++
	}
	return c
}

const maxEnumSteps = 200000

func (m *enumerator) dfs(c cfg, optb map[*OptDecl][]string, argb []struct {
	a *ArgDecl
	v string
}) {
	if m.steps > maxEnumSteps {
		return
	}
	m.steps++
	c = m.normalize(c)
	k := string(rune(c.q)) + "|" + string(rune(c.i)) + "|" + runKey(c.run)
	if c.ended {
		k += "E"
	}
	if m.onpath[k] {
		return
	}
	m.onpath[k] = true
	defer delete(m.onpath, k)

	if c.q == m.n.Final && len(c.run) == 0 && c.i == len(m.argv) {
		m.res.accept = true
		b := Binding{Opts: map[*OptDecl][]string{}, Args: map[*ArgDecl][]string{}}
		for o, v := range optb {
			b.Opts[o] = v
		}
		for _, av := range argb {
			b.Args[av.a] = append(b.Args[av.a], av.v)
		}
		m.res.bindings[b.Key(m.p)] = true
		m.res.paths++
	}
	for _, t := range m.n.tr[c.q] {
		switch t.k {
		case tEps:
			m.dfs(cfg{t.to, c.i, c.ended, c.run}, optb, argb)
		case tDD:
			if len(c.run) > 0 {
				m.res.unclaimed = true
				continue
			}
			m.dfs(cfg{t.to, c.i, true, nil}, optb, argb)
		case tOpt:
			idx := -1
			if !c.ended {
				for x, oc := range c.run {
					if oc.Opt == t.Opt {
						idx = x
						break
					}
				}
			}
			if idx < 0 {
				if t.Opt.EnvSet {
					if t.strict {
						m.res.unclaimed = true
						continue
					}
					m.dfs(cfg{t.to, c.i, c.ended, c.run}, optb, argb)
				}
				continue
			}
			nrun := append(append([]Occ{}, c.run[:idx]...), c.run[idx+1:]...)
			old := optb[t.Opt]
			optb[t.Opt] = append(append([]string{}, old...), c.run[idx].Val)
			m.dfs(cfg{t.to, c.i, c.ended, nrun}, optb, argb)
			if old == nil {
				delete(optb, t.Opt)
			} else {
				optb[t.Opt] = old
			}
		case tGroup:
			if c.ended {
				continue
			}
			in := func(o *OptDecl) bool {
				for _, g := range t.grp {
					if g == o {
						return true
					}
				}
				return false
			}
			var nrun []Occ
			saved := map[*OptDecl][]string{}
			took := 0
			for _, oc := range c.run {
				if in(oc.Opt) {
					if _, ok := saved[oc.Opt]; !ok {
						saved[oc.Opt] = optb[oc.Opt]
					}
					optb[oc.Opt] = append(append([]string{}, optb[oc.Opt]...), oc.Val)
					took++
				} else {
					nrun = append(nrun, oc)
				}
			}
			if took > 0 {
				m.dfs(cfg{t.to, c.i, c.ended, nrun}, optb, argb)
			} else {
				for _, g := range t.grp {
					if g.EnvSet {
						m.res.unclaimed = true
					}
				}
			}
			for o, v := range saved {
				if v == nil {
					delete(optb, o)
				} else {
					optb[o] = v
				}
			}
		case tArg:
			if len(c.run) > 0 || c.i >= len(m.argv) {
				continue
			}
			tok := m.argv[c.i]
			if !c.ended && strings.HasPrefix(tok, "-") && tok != "-" {
				continue
			}
			m.dfs(cfg{t.to, c.i + 1, c.ended, nil}, optb, append(argb, struct {
				a *ArgDecl
				v string
			}{t.arg, tok}))
		}
	}
}

// Bindings enumerates the distinct bindings the reference admits for argv (exhaustive DFS with a step cap).
// Unclaimed is set when a zone was touched or the cap was hit: the enumeration is then not to be relied upon.
func Bindings(p *Prog, argv []string) (accept bool, keys []string, unclaimed bool) {
	m := &enumerator{p: p, n: BuildNFA(p, false), argv: argv, res: &refResult{bindings: map[string]bool{}}, onpath: map[string]bool{}}
	m.dfs(cfg{q: m.n.Start}, map[*OptDecl][]string{}, nil)
	if m.steps > maxEnumSteps || zone4Token(p, argv) {
		m.res.unclaimed = true
	}
	for k := range m.res.bindings {
		keys = append(keys, k)
	}
	sort.Strings(keys)
	return m.res.accept, keys, m.res.unclaimed
}
