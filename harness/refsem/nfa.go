package refsem

import (
	"strings"
)

// ---- reference NFA (Thompson) ----

type tkind int

const (
	tEps tkind = iota
	tOpt
	tArg
	tDD
	tGroup
)

type rtrans struct {
	k      tkind
	Opt    *OptDecl
	arg    *ArgDecl
	to     int
	strict bool // opt inside a group: no env-epsilon
	grp    []*OptDecl
}

type NFA struct {
	regexGroups bool
	tr          [][]rtrans
	Start       int
	Final       int
}

func (n *NFA) newState() int {
	n.tr = append(n.tr, nil)
	return len(n.tr) - 1
}
func (n *NFA) add(from int, t rtrans) { n.tr[from] = append(n.tr[from], t) }

// BuildNFA builds the Thompson automaton of the spec. regexGroups selects the reading of option groups:
// false = one symbol taking every listed occurrence of the run (maximal munch), true = (o1|..|on)+
func BuildNFA(p *Prog, regexGroups bool) *NFA {
	n := &NFA{regexGroups: regexGroups}
	s, e := n.build(p, p.AST)
	n.Start, n.Final = s, e
	return n
}

func (n *NFA) build(p *Prog, x *Node) (int, int) {
	switch x.K {
	case KSeq:
		s := n.newState()
		e := s
		for _, k := range x.Kids {
			ks, ke := n.build(p, k)
			n.add(e, rtrans{k: tEps, to: ks})
			e = ke
		}
		return s, e
	case KChoice:
		s, e := n.newState(), n.newState()
		for _, k := range x.Kids {
			ks, ke := n.build(p, k)
			n.add(s, rtrans{k: tEps, to: ks})
			n.add(ke, rtrans{k: tEps, to: e})
		}
		return s, e
	case KOptional:
		ks, ke := n.build(p, x.Kids[0])
		s, e := n.newState(), n.newState()
		n.add(s, rtrans{k: tEps, to: ks})
		n.add(ke, rtrans{k: tEps, to: e})
		n.add(s, rtrans{k: tEps, to: e})
		return s, e
	case KGroup:
		return n.build(p, x.Kids[0])
	case KRep:
		ks, ke := n.build(p, x.Kids[0])
		s, e := n.newState(), n.newState()
		n.add(s, rtrans{k: tEps, to: ks})
		n.add(ke, rtrans{k: tEps, to: e})
		n.add(ke, rtrans{k: tEps, to: ks})
		return s, e
	case KOpt:
		s, e := n.newState(), n.newState()
		n.add(s, rtrans{k: tOpt, Opt: x.Opt, to: e})
		return s, e
	case KOptGroup, KAllOpts:
		opts := x.Opts
		if x.K == KAllOpts {
			opts = p.Opts
		}
		s, e := n.newState(), n.newState()
		if n.regexGroups {
			// (o1|...|on)+
			for _, o := range opts {
				n.add(s, rtrans{k: tOpt, Opt: o, to: e, strict: true})
			}
			n.add(e, rtrans{k: tEps, to: s})
		} else {
			n.add(s, rtrans{k: tGroup, grp: opts, to: e})
		}
		return s, e
	case KArg:
		s, e := n.newState(), n.newState()
		n.add(s, rtrans{k: tArg, arg: x.Arg, to: e})
		return s, e
	case KDD:
		s, e := n.newState(), n.newState()
		n.add(s, rtrans{k: tDD, to: e})
		return s, e
	}
	panic("bad node")
}

// ---- command line reading ----

type Occ struct {
	Opt *OptDecl
	Val string
}

// ReadRun reads the maximal run of well-formed occurrences of declared options starting at argv[i].
// dashTransparent: treat a lone "-" as transparent inside the run (implementation quirk) -- off in the clean reference.
// BadKind classifies the token at which reading stops: 0 none/positional/"--"/"-", 1 plain undeclared (claimed), 2 partly consumable or skippable by the implementation (zone 4)
func BadKind(p *Prog, argv []string, j int) int {
	if j >= len(argv) {
		return 0
	}
	t := argv[j]
	if t == "--" || t == "-" || !strings.HasPrefix(t, "-") {
		return 0
	}
	if strings.HasPrefix(t, "--") {
		kv := strings.SplitN(t, "=", 2)
		o := p.OptByDashed(kv[0])
		if o == nil {
			return 1
		}
		return 2 // declared long option with empty '=' value or lacking a usable separate value
	}
	if len(t) >= 3 && t[2] == '=' {
		return 2 // -x= forms: undeclared ones are skipped, declared ones with empty value skipped for others
	}
	if p.OptByDashed(t[:2]) == nil {
		return 1 // first letter undeclared: scan stops
	}
	return 2 // declared prefix: partly consumable (flags before an undeclared letter) or valued without value
}

func ReadRun(p *Prog, argv []string, i int) ([]Occ, int) {
	var run []Occ
	j := i
	for j < len(argv) {
		t := argv[j]
		switch {
		case t == "--" || t == "-":
			return run, j
		case strings.HasPrefix(t, "--"):
			kv := strings.SplitN(t, "=", 2)
			o := p.OptByDashed(kv[0])
			if o == nil {
				return run, j
			}
			if len(kv) == 2 {
				if kv[1] == "" {
					return run, j
				}
				run = append(run, Occ{o, kv[1]})
				j++
			} else if o.Flag {
				run = append(run, Occ{o, "true"})
				j++
			} else {
				if j+1 >= len(argv) || strings.HasPrefix(argv[j+1], "-") {
					return run, j
				}
				run = append(run, Occ{o, argv[j+1]})
				j += 2
			}
		case strings.HasPrefix(t, "-"):
			if len(t) >= 3 && t[2] == '=' {
				o := p.OptByDashed(t[:2])
				if o == nil || t[3:] == "" {
					return run, j
				}
				run = append(run, Occ{o, t[3:]})
				j++
				continue
			}
			var tmp []Occ
			adv := 1
			ok := true
			for k := 1; k < len(t); k++ {
				o := p.OptByDashed("-" + t[k:k+1])
				if o == nil {
					ok = false
					break
				}
				if o.Flag {
					tmp = append(tmp, Occ{o, "true"})
					continue
				}
				rest := t[k+1:]
				if rest != "" {
					tmp = append(tmp, Occ{o, rest})
				} else {
					if j+1 >= len(argv) || strings.HasPrefix(argv[j+1], "-") {
						ok = false
						break
					}
					tmp = append(tmp, Occ{o, argv[j+1]})
					adv = 2
				}
				break
			}
			if !ok {
				return run, j
			}
			run = append(run, tmp...)
			j += adv
		default:
			return run, j
		}
	}
	return run, j
}

// ---- matching ----

type Binding struct {
	Opts map[*OptDecl][]string
	Args map[*ArgDecl][]string
}

func (b Binding) Key(p *Prog) string {
	var sb strings.Builder
	for _, o := range p.Opts {
		sb.WriteString(o.Names[0] + "=" + strings.Join(b.Opts[o], "\x00") + "\x01")
	}
	for _, a := range p.Args {
		sb.WriteString(a.Name + "=" + strings.Join(b.Args[a], "\x00") + "\x01")
	}
	return sb.String()
}

type cfg struct {
	q     int
	i     int
	ended bool
	run   []Occ
}

func runKey(run []Occ) string {
	var sb strings.Builder
	for _, o := range run {
		sb.WriteString(o.Opt.Names[0] + "\x00" + o.Val + "\x01")
	}
	return sb.String()
}
