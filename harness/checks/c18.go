package checks

import (
	"flag"
	"fmt"
	"io"
	"regexp"
	"strings"

	cli "github.com/jawher/mow.cli"

	"verif/core"
)

var c18ArgRe = regexp.MustCompile(`^[A-Z][A-Z0-9_]*$`)

type c18SV string

func (s *c18SV) Set(v string) error { *s = c18SV(v); return nil }
func (s *c18SV) String() string     { return string(*s) }

var c18OptNames = []string{"a", "b", "A", "ab", "ba", "aa", "x1", "long-name", "f", "force", "1", "o_o", "9", "a-name-longer-than-sixty-four-bytes-0123456789-0123456789-0123456789", "B", "aB", "é", "日本", "-a", "-f", "--force", "a,b", "x,y", "b,", "h", "help", "H"}
var c18ArgNames = []string{"X", "Y", "XY", "X1", "X_Y", "x", "Xy", "1X", "_X", "OPTIONS", "OPTIONSX", "X-Y", "X.", "-X", "É", "[X]", "X...", "X|Y", "--", "", "A", "AB", "X=<y>", "(X)", "SRC:DST", "A@B", "WHAT?", "A;B", "A<B", "A>B", "KEY=VALUE", "SRC\n", "\nSRC", "SRC\r", "_", "_SRC", "X\x00", "X[", "X^", "X`", "Xa"}

func init() {
	core.Register(&core.Check{
		ID:        "C18",
		Title:     "Invalid declarations fail fast",
		Technique: "runtime monitor around every declaration call of the real library (recover per call), judged by a declaration model; then every declared name is used on a command line and the variable it sets observed",
		Rule: "a case is a sequence of 1-6 declarations on the root or inside a subcommand's initializer, through all entry points (BoolOpt, BoolOptPtr, String, StringPtr, IntOpt, Strings, Var/VarOpt; StringArg, Strings(Arg), IntArg, VarArg): " +
			"options with 1-3 names drawn from a small alphabet (some *Ptr declarations deliberately store into the same variable as an earlier one) (one-letter, longer, upper case, with dash/underscore/digit) so that collisions between any two names of any two options, in either order, are frequent; " +
			"argument names drawn from valid and invalid strings without blanks (lower case, digit first, OPTIONS, symbols, brackets, '...', empty). Oracle: the call panics iff an option name was already taken / the argument name is not " +
			"^[A-Z][A-Z0-9_]*$, is OPTIONS, or is a duplicate; for sequences without conflict every listed name (one letter -> -x, longer -> --xx) given on a command line sets exactly its own variable and no other. " +
			"Family P (one case in sixteen): a conflicting declaration inside a sub-command's initializer that the program does not recover, reached through ten command lines (the sub-command addressed, its help, the parent's help or usage) under the three policies, must arrive at the caller of Run as a panic. " +
			"Name lists repeating a name within one declaration are generated but not judged. non-trivial = sequence of >=2 declarations; distinct by the sequence.",
		Assumptions: []string{"a sequence goes on after a recovered panic; what a rejected option declaration leaves behind (the names it listed before the colliding one) is unspecified and not judged, but names taken by accepted declarations must stay taken"},
		Cases:       tiered(60000, 2000000),
		Floor:       tiered(6000, 200000),
		Run:         runC18,
	})
}

// c18Propagate: an invalid declaration inside a sub-command's initializer, NOT recovered by the program: whichever way the
// library comes to run that initializer (the sub-command is addressed, its help is requested, or the parent's help is
// rendered and lists it), the panic reaches the caller of Run; it is never swallowed on the way
func c18Propagate(c *core.Ctx) {
	r := c.R
	kind := r.Intn(4)
	argvs := [][]string{{"--help"}, {"-h"}, {}, {"nosuch"}, {"--nosuch"}, {"sub"}, {"sub", "--help"}, {"sub", "x", "-h"}, {"s"}, {"other", "--help"}}
	argv := argvs[r.Intn(len(argvs))]
	pol := []flag.ErrorHandling{flag.ContinueOnError, flag.ExitOnError, flag.PanicOnError}[r.Intn(3)]
	desc := map[string]interface{}{"sub_command_declares": []string{"-f and then -f again", "--force --ff and then -x --force", "SRC and then SRC", "an argument named src"}[kind], "argv": argv, "policy": policyName(pol)}
	c.Journal(desc)
	c.Nontrivial("P", fmt.Sprint(kind, argv, pol))
	cli.VerifSetStdErr(io.Discard)
	cli.VerifSetStdOut(io.Discard)
	exited := false
	cli.VerifSetExiter(func(int) { exited = true; panic("exit stub") })
	app := cli.App("app", "")
	app.ErrorHandling = pol
	ran := false
	reached := false
	app.Command("other", "", func(sc *cli.Cmd) { sc.Action = func() { ran = true } })
	app.Command("sub s", "", func(sc *cli.Cmd) {
		reached = true
		switch kind {
		case 0:
			sc.BoolOpt("f", false, "")
			sc.BoolOpt("f", false, "")
		case 1:
			sc.StringOpt("force ff", "", "")
			sc.StringOpt("x force", "", "")
		case 2:
			sc.StringArg("SRC", "", "")
			sc.StringsArg("SRC", nil, "")
		default:
			sc.StringArg("src", "", "")
		}
		sc.Action = func() { ran = true }
	})
	var pan interface{}
	func() {
		defer func() { pan = recover() }()
		app.Run(append([]string{"app"}, argv...))
	}()
	c.Eval()
	if !reached {
		// the library did not run the initializer for this invocation: nothing to judge
		c.Inc("P_initializer_not_run")
		return
	}
	if pan == nil || exited || ran || pan == "exit stub" {
		c.Violation(fmt.Sprintf("an invalid declaration in a sub-command's initializer did not reach the caller of Run as a panic (panic=%v exited=%v action ran=%v)", pan, exited, ran), desc, nil)
		return
	}
	c.Inc("P_panic_reached_the_caller")
}

func runC18(c *core.Ctx) {
	if c.Index%16 == 5 {
		c18Propagate(c)
		return
	}
	r := c.R
	cli.VerifSetStdErr(io.Discard)
	type od struct {
		names []string
		b     *bool
		s     *string
		i     *int
		ss    *[]string
		v     *c18SV
		// declared through app.Version: no variable of ours behind it
		isVersion bool
	}
	var opts []od
	var steps []string
	shared := false // some *Ptr declarations store into the same variable: legal, and it must not soften the duplicate-name check
	inSub := r.Intn(3) == 0
	k := 1 + r.Intn(6)
	if r.Intn(15) == 0 {
		k = 9 + r.Intn(6)
	}
	usedOpt := map[string]bool{}
	maybeOpt := map[string]bool{}
	afterPanic := false
	usedArg := map[string]bool{}
	sharedArgVal, sharedArgBool := new(c18SV), new(bool)
	aborted := false
	declared := 0
	var violation string
	app := cli.App("app", "")
	app.ErrorHandling = flag.ContinueOnError
	specFirst := r.Intn(3) == 0
	declareAll := func(cmd *cli.Cmd) {
		if specFirst {
			cmd.Spec = "[OPTIONS]" // a spec written before the declarations changes nothing about what a declaration accepts
		}
		for d := 0; d < k && !aborted; d++ {
			if r.Intn(3) > 0 {
				cnt := 1 + r.Intn(3)
				if r.Intn(12) == 0 {
					cnt = 4 + r.Intn(3) // a long list of names
				}
				perm := r.Perm(len(c18OptNames))
				var names []string
				for _, pi := range perm[:cnt] {
					names = append(names, c18OptNames[pi])
				}
				collide, maybe := false, false
				firstHit := -1
				for i, nm := range names {
					if usedOpt[nm] {
						collide = true
						if firstHit < 0 {
							firstHit = i
						}
					}
					if maybeOpt[nm] {
						maybe = true
					}
				}
				o := od{names: names}
				form := r.Intn(8)
				if !inSub && r.Intn(10) == 0 {
					form = 8 // the application's version flag is an option declaration like any other
				}
				joined := strings.Join(names, " ")
				if r.Intn(4) == 0 {
					joined = " " + strings.Join(names, "  ") + " "
				}
				steps = append(steps, fmt.Sprintf("opt[%d](%q)", form, joined))
				c.Journal(map[string]interface{}{"declarations": steps, "in_subcommand": inSub})
				panicked := func() (p bool) {
					defer func() {
						if recover() != nil {
							p = true
						}
					}()
					switch form {
					case 0:
						o.b = cmd.BoolOpt(joined, false, "")
					case 1:
						o.b = new(bool)
						for _, prev := range opts {
							if prev.b != nil && r.Intn(2) == 0 {
								o.b, shared = prev.b, true
							}
						}
						cmd.BoolOptPtr(o.b, joined, false, "")
					case 2:
						o.s = cmd.String(cli.StringOpt{Name: joined})
					case 3:
						o.s = new(string)
						for _, prev := range opts {
							if prev.s != nil && r.Intn(2) == 0 {
								o.s, shared = prev.s, true
							}
						}
						cmd.StringPtr(o.s, cli.StringOpt{Name: joined})
					case 4:
						o.i = cmd.IntOpt(joined, 0, "")
					case 5:
						o.ss = cmd.Strings(cli.StringsOpt{Name: joined})
					case 6:
						o.v = new(c18SV)
						cmd.VarOpt(joined, o.v, "")
					case 8:
						app.Version(joined, "1.0")
						o.b = nil
						o.isVersion = true
					default:
						o.v = new(c18SV)
						cmd.Var(cli.VarOpt{Name: joined, Value: o.v})
					}
					return false
				}()
				c.Eval()
				if panicked != collide && !(maybe && !collide) {
					violation = fmt.Sprintf("option declaration %q: panicked=%v, a name was already taken=%v", joined, panicked, collide)
					aborted = true
					return
				}
				if panicked {
					// the sequence goes on after the recovered panic: the earlier owners must keep their names. What a
					// rejected declaration leaves behind is unspecified: the names it listed before the colliding one
					// may or may not be taken now
					c.Inc("option_collisions_caught")
					afterPanic = true
					for i, nm := range names {
						if (firstHit < 0 || i < firstHit) && !usedOpt[nm] {
							maybeOpt[nm] = true
						}
					}
					continue
				}
				if afterPanic {
					c.Inc("declarations_after_a_recovered_panic")
				}
				declared++
				c.Inc("options_declared")
				for _, nm := range names {
					usedOpt[nm] = true
				}
				opts = append(opts, o)
			} else {
				nm := c18ArgNames[r.Intn(len(c18ArgNames))]
				if r.Intn(5) < 3 {
					nm = []string{"X", "Y", "A", "X_Y"}[r.Intn(4)]
				}
				expect := !c18ArgRe.MatchString(nm) || nm == "OPTIONS" || usedArg[nm]
				form := r.Intn(5)
				steps = append(steps, fmt.Sprintf("arg[%d](%q)", form, nm))
				c.Journal(map[string]interface{}{"declarations": steps, "in_subcommand": inSub})
				panicked := func() (p bool) {
					defer func() {
						if recover() != nil {
							p = true
						}
					}()
					switch form {
					case 0:
						cmd.StringArg(nm, "", "")
					case 1:
						cmd.Strings(cli.StringsArg{Name: nm})
					case 2:
						cmd.IntArg(nm, 0, "")
					case 3:
						cmd.BoolPtr(sharedArgBool, cli.BoolArg{Name: nm})
					default:
						// the same value object behind several declarations: the name decides, not the destination
						cmd.VarArg(nm, sharedArgVal, "")
					}
					return false
				}()
				c.Eval()
				if panicked != expect {
					violation = fmt.Sprintf("argument declaration %q: panicked=%v, expected=%v (valid identifier=%v, duplicate=%v)", nm, panicked, expect, c18ArgRe.MatchString(nm) && nm != "OPTIONS", usedArg[nm])
					aborted = true
					return
				}
				if panicked {
					if usedArg[nm] {
						c.Inc("duplicate_arguments_caught")
					} else {
						c.Inc("invalid_argument_names_caught")
					}
					afterPanic = true
					continue
				}
				declared++
				c.Inc("arguments_declared")
				usedArg[nm] = true
			}
		}
	}
	var pick od
	var pickName string
	oi := -1
	finish := func(cmd *cli.Cmd) {
		if aborted || len(opts) == 0 {
			return
		}
		cmd.Spec = "[OPTIONS]"
		cmd.Action = func() {}
		oi = r.Intn(len(opts))
		for _, o := range opts {
			if o.isVersion {
				oi = -1
				return
			}
		}
		pick = opts[oi]
		pickName = pick.names[r.Intn(len(pick.names))]
		if pickName == "h" || pickName == "help" {
			oi = -1 // on the command line these spell a help request: declarations are judged, addressing is not
		}
	}
	argv := []string{"app"}
	if inSub {
		app.Command("sub", "", func(sc *cli.Cmd) { declareAll(sc); finish(sc) })
		argv = append(argv, "sub")
		// the initializer runs when the subcommand is reached
		func() {
			defer func() { recover() }()
			app.Run([]string{"app", "sub", "--help"})
		}()
	} else {
		declareAll(app.Cmd)
		finish(app.Cmd)
	}
	if len(steps) >= 2 {
		c.Nontrivial(strings.Join(steps, ";"), fmt.Sprint(inSub))
	}
	if violation != "" {
		c.Violation(violation, map[string]interface{}{"declarations": steps}, nil)
		return
	}
	if shared {
		c.Inc("sequences_with_shared_destination")
	}
	if oi < 0 || inSub || shared || len(maybeOpt) > 0 {
		// (for a subcommand the variables belong to an initializer run that is over; addressing is checked on the root)
		return
	}
	d := "--" + pickName
	if len(pickName) == 1 {
		d = "-" + pickName
	}
	val := "val"
	switch {
	case pick.b != nil:
		argv = append(argv, d)
	case pick.i != nil:
		argv = append(argv, d+"=42")
	default:
		argv = append(argv, d+"="+val)
	}
	c.Journal(map[string]interface{}{"declarations": steps, "argv": argv})
	var pan interface{}
	var err error
	func() {
		defer func() { pan = recover() }()
		err = app.Run(argv)
	}()
	c.Eval()
	if pan != nil || err != nil {
		c.Violation(fmt.Sprintf("a declared name is not usable on the command line: %v err=%v panic=%v", argv, err, pan), map[string]interface{}{"declarations": steps}, nil)
		return
	}
	for j, oo := range opts {
		set := (oo.b != nil && *oo.b) || (oo.s != nil && *oo.s == val) || (oo.i != nil && *oo.i == 42) || (oo.ss != nil && len(*oo.ss) == 1 && (*oo.ss)[0] == val) || (oo.v != nil && string(*oo.v) == val)
		if set != (j == oi) {
			c.Violation(fmt.Sprintf("%v: option #%d %v set=%v, the name belongs to option #%d", argv, j, oo.names, set, oi), map[string]interface{}{"declarations": steps}, nil)
			return
		}
	}
	c.Inc("names_address_own_variable")
	// after a Run the option table must still refuse a colliding declaration
	if len(opts) > 0 {
		victim := opts[r.Intn(len(opts))]
		nm := victim.names[r.Intn(len(victim.names))] + " fresh-name"
		steps = append(steps, fmt.Sprintf("after-run opt(%q)", nm))
		c.Journal(map[string]interface{}{"declarations": steps})
		panicked := func() (p bool) {
			defer func() {
				if recover() != nil {
					p = true
				}
			}()
			app.BoolOpt(nm, false, "")
			return false
		}()
		c.Eval()
		if !panicked {
			c.Violation(fmt.Sprintf("after a Run, declaring %q (its first name is taken) does not panic", nm), map[string]interface{}{"declarations": steps}, nil)
			return
		}
		c.Inc("collisions_after_run_caught")
	}
	if len(pickName) == 1 {
		c.Inc("used_as_short")
	} else {
		c.Inc("used_as_long")
	}
	if c.WantSample() && len(steps) >= 4 {
		c.Sample(map[string]interface{}{"declarations": steps, "argv": argv, "sets_only": pick.names})
	}
}
