package checks

import (
	"flag"
	"fmt"
	"io"
	"math/rand"
	"os"
	"regexp"
	"strconv"
	"strings"

	cli "github.com/jawher/mow.cli"

	"verif/core"
)

// ---- C17: the rendered help is parsed back and compared with the declarations (DESIGN 3.8) ----

var wsRe = regexp.MustCompile(`\s+`)
var twoSpRe = regexp.MustCompile(`\s{2,}`)

func normWS(s string) string { return strings.TrimSpace(wsRe.ReplaceAllString(s, " ")) }

type helpRow struct{ Names, Text string }
type helpParsed struct {
	usage    string
	desc     string
	sections map[string][]helpRow
	order    []string
	footer   string
	errLine  string
}

func parseHelp(out string) (p helpParsed, err error) {
	p.sections = map[string][]helpRow{}
	lines := strings.Split(out, "\n")
	i := 0
	// whatever precedes the usage line (the error message of a rejected invocation) is kept, its wording not judged
	for i < len(lines) && !strings.HasPrefix(lines[i], "Usage: ") {
		if strings.TrimSpace(lines[i]) != "" {
			p.errLine = lines[i]
		}
		i++
	}
	if i >= len(lines) {
		return p, fmt.Errorf("no usage line")
	}
	p.usage = normWS(lines[i])
	i++
	cur := ""
	textCol := 0
	var desc []string
	for ; i < len(lines); i++ {
		l := lines[i]
		t := strings.TrimSpace(l)
		if t == "Arguments:" || t == "Options:" || t == "Commands:" {
			cur = t
			textCol = 0
			p.order = append(p.order, t)
			continue
		}
		if strings.HasPrefix(t, "Run '") && strings.HasSuffix(t, "for more information on a command.") {
			p.footer = t
			cur = "footer"
			continue
		}
		if cur == "" {
			desc = append(desc, l)
			continue
		}
		if t == "" {
			continue
		}
		if cur == "footer" {
			return p, fmt.Errorf("text after the footer: %q", l)
		}
		indent := len(l) - len(strings.TrimLeft(l, " \t"))
		if indent == 0 && cur == "Commands:" && len(p.sections[cur]) > 0 {
			// the description of a sub-command is written as it is: its further lines start in the first column
			rs := p.sections[cur]
			rs[len(rs)-1].Text = normWS(rs[len(rs)-1].Text + " " + t)
			continue
		}
		if indent == 0 {
			return p, fmt.Errorf("unexpected line in section %s: %q", cur, l)
		}
		// a continuation row has an empty names column: its text starts in the text column of the rows above it
		// (the table writer aligns the cells of a block), whereas names always start left of that column
		if textCol > 0 && indent >= textCol {
			rs := p.sections[cur]
			if len(rs) == 0 {
				return p, fmt.Errorf("continuation line without a row: %q", l)
			}
			rs[len(rs)-1].Text = normWS(rs[len(rs)-1].Text + " " + t)
			continue
		}
		loc := twoSpRe.FindStringIndex(t)
		r := helpRow{Names: normWS(t)}
		if loc != nil {
			r.Names = normWS(t[:loc[0]])
			r.Text = normWS(t[loc[1]:])
			textCol = indent + loc[1]
		}
		p.sections[cur] = append(p.sections[cur], r)
	}
	p.desc = normWS(strings.Join(desc, " "))
	return p, nil
}

func envFmt(env string) string {
	f := strings.Fields(env)
	if len(f) == 0 {
		return ""
	}
	return "(env $" + strings.Join(f, ", $") + ")"
}

func joinParts(parts ...string) string {
	var o []string
	for _, p := range parts {
		if strings.TrimSpace(p) != "" {
			o = append(o, p)
		}
	}
	return normWS(strings.Join(o, " "))
}

func optNamesFor(names []string) string {
	short, long := "", ""
	for _, n := range names {
		if len(n) == 1 && short == "" {
			short = "-" + n
		}
		if len(n) > 1 && long == "" {
			long = "--" + n
		}
	}
	switch {
	case short != "" && long != "":
		return short + ", " + long
	case short != "":
		return short
	}
	return long
}

type c17Plain struct{ s string }

func (v *c17Plain) Set(x string) error { v.s = x; return nil }
func (v *c17Plain) String() string     { return v.s }

type c17Def struct {
	c17Plain
	def bool
}

func (v *c17Def) IsDefault() bool { return v.def }

type c17BoolDef struct{ c17Def }

func (v *c17BoolDef) IsBoolFlag() bool { return true }

type hNode struct {
	name       string
	aliases    []string
	desc       string
	longDesc   string
	printTwice bool
	// primeOther: before the judged help the Action prints the other kind (long before short, short before long) into
	// a discarded stream: what one kind of help printed must not change the other
	primeOther bool
	mainOut    io.Writer
	bareKids   bool
	hidden     bool
	spec       string // as given ("" = none)
	opts       []helpRow
	args       []helpRow
	argNames   []string
	kids       []*hNode
	parent     *hNode
	declare    func(c *cli.Cmd)
	hasOpts    bool
	// printFromAction: 1 = the Action calls PrintHelp(), 2 = PrintLongHelp() (user code asking for the help text)
	printFromAction int
}

func (n *hNode) path() string {
	if n.parent == nil {
		return n.name
	}
	return n.parent.path() + " " + n.name
}

var hDescs = []string{"", "one line", "50% of %s done, 100%d", "%", "first line\nsecond line", "with (parens) and $VAR", "a\n\nb", "  padded  ", "x\n  indented cont", "ends with colon:", "Options are nice"}
var hEnvs = []string{"", "E1", "E1 E2", "  E1   E2  E3 ", " ", "E_SET", "E1,E2", "E1\tE2", "e_low http_proxy", "Mixed_Case", "$TOKEN APP_TOKEN", "A_RATHER_LONG_ENVIRONMENT_VARIABLE_NAME_OF_MORE_THAN_FORTY_CHARACTERS"} // names are separated by white space only

// genHelpNode draws declarations for one command and records the rows its help must show
func genHelpNode(r *rand.Rand, name string, depth int, parent *hNode, version bool) *hNode {
	n := &hNode{name: name, aliases: []string{name}, parent: parent}
	n.desc = strings.Replace(hDescs[1+r.Intn(6)], "\n", " ", -1)
	if parent != nil {
		for j := 0; j < r.Intn(3); j++ {
			n.aliases = append(n.aliases, fmt.Sprintf("%s_%d", name, j))
		}
		n.desc = strings.Replace(hDescs[r.Intn(7)], "\n", " ", -1)
		if r.Intn(3) == 0 {
			// also multi-line: every line shows up in the parent's Commands section (further lines are written as they
			// are, from the first column; one that starts with blanks would read like a row of its own, so none does)
			n.desc = []string{"first line\nsecond line", "a\n\nb", "one\ntwo\nthree (100%)", "ends with colon:"}[r.Intn(4)]
		}
		n.hidden = r.Intn(4) == 0
	}
	if r.Intn(2) == 0 {
		n.longDesc = "LONG description\nof " + name + []string{"", " (100% %v)"}[r.Intn(2)]
		if r.Intn(6) == 0 {
			n.longDesc = "L" // a long description may be short
		}
	}
	names := []string{"a", "b", "c", "d", "e", "long1", "long2", "l3", "x-y", "f", "Z", "zz", "g", "i", "j", "k", "l", "m", "n", "o", "p", "q", "r", "long-name-4", "ln5", "s", "t", "u", "another_long-one", "w", "y"}
	r.Shuffle(len(names), func(i, j int) { names[i], names[j] = names[j], names[i] })
	var decls []func(c *cli.Cmd)
	if version && parent == nil {
		n.opts = append(n.opts, helpRow{"-V, --version", "Show the version and exit"})
	}
	ni := 0
	no := r.Intn(5)
	if parent != nil && parent.bareKids {
		no = 0 // a sub-command that declares nothing: its parent's help can be printed any number of times
	}
	many := r.Intn(12) == 0
	if many {
		no = 9 + r.Intn(3) // more than eight options
	}
	for k := 0; k < no && ni+5 < len(names); k++ {
		cnt := 1 + r.Intn(3)
		if !many && r.Intn(10) == 0 {
			cnt = 4 + r.Intn(2) // an option with four or five names
		}
		if many {
			cnt = 1 + r.Intn(2)
		}
		nm := append([]string{}, names[ni:ni+cnt]...)
		ni += cnt
		d := hDescs[r.Intn(len(hDescs))]
		e := hEnvs[r.Intn(len(hEnvs))]
		hide := r.Intn(4) == 0
		def := ""
		name := strings.Join(nm, " ")
		typ := r.Intn(9)
		switch typ {
		case 7, 8:
			// user-supplied value type: the default shown is its String(), unless it says IsDefault()
			txt := []string{"", "cv-1", "two words", "[]", "false", "0", "the text of a user-defined value, longer than forty characters"}[r.Intn(7)] // shown as it is whenever the type does not say IsDefault
			isDef := typ == 8 && r.Intn(2) == 0
			var val flag.Value = &c17Plain{txt}
			if typ == 8 {
				val = &c17Def{c17Plain{txt}, isDef}
				if r.Intn(2) == 0 {
					val = &c17BoolDef{c17Def{c17Plain{txt}, isDef}} // also a bool flag: IsDefault still decides
				}
			}
			if r.Intn(2) == 0 && e == "" && !hide {
				decls = append(decls, func(c *cli.Cmd) { c.VarOpt(name, val, d) })
			} else {
				decls = append(decls, func(c *cli.Cmd) { c.Var(cli.VarOpt{Name: name, Desc: d, EnvVar: e, Value: val, HideValue: hide}) })
			}
			if !isDef {
				def = txt
			}
		case 0:
			v := r.Intn(2) == 0
			decls = append(decls, func(c *cli.Cmd) { c.Bool(cli.BoolOpt{Name: name, Desc: d, EnvVar: e, Value: v, HideValue: hide}) })
			if v {
				def = "true"
			}
		case 1:
			v := []string{"", "str", "with space", "q\"uote", "50%", "%d %s", "a\\b", " ", "\t", "Kraków", "日本語", "a default of more than forty characters, which is shown to its very end"}[r.Intn(12)] // shown %q-quoted, verbatim otherwise
			decls = append(decls, func(c *cli.Cmd) { c.String(cli.StringOpt{Name: name, Desc: d, EnvVar: e, Value: v, HideValue: hide}) })
			if v != "" {
				def = fmt.Sprintf("%q", v)
			}
		case 2:
			v := []int{0, 5, -3}[r.Intn(3)]
			decls = append(decls, func(c *cli.Cmd) { c.Int(cli.IntOpt{Name: name, Desc: d, EnvVar: e, Value: v, HideValue: hide}) })
			def = strconv.Itoa(v)
		case 3:
			v := []float64{0, 1.5, -2, 2.5e6, 1e-5, 1e21, 123456.5}[r.Intn(7)] // shown the way Go prints a float (%v)
			decls = append(decls, func(c *cli.Cmd) { c.Float64(cli.Float64Opt{Name: name, Desc: d, EnvVar: e, Value: v, HideValue: hide}) })
			def = fmt.Sprintf("%v", v)
		case 4:
			v := [][]string{nil, {}, {"a"}, {"a", "b c"}, {"100%", "%v"}, {"C:\\tmp", "say \"hi\"", "tab\there"}, {" "}, {"first-element", "second-element", "third-element", "fourth-element"}}[r.Intn(8)]
			if v == nil && r.Intn(2) == 0 {
				// the *Ptr entry point with a destination that holds something else: no default was declared, none is shown
				decls = append(decls, func(c *cli.Cmd) {
					dest := []string{"stale"}
					c.StringsPtr(&dest, cli.StringsOpt{Name: name, Desc: d, EnvVar: e, Value: v, HideValue: hide})
				})
			} else {
				decls = append(decls, func(c *cli.Cmd) { c.Strings(cli.StringsOpt{Name: name, Desc: d, EnvVar: e, Value: v, HideValue: hide}) })
			}
			if len(v) > 0 {
				var q []string
				for _, x := range v {
					q = append(q, fmt.Sprintf("%q", x))
				}
				def = "[" + strings.Join(q, ", ") + "]"
			}
		case 5:
			v := [][]int{nil, {1}, {1, 2}, {1000000, 2000000, 3000000, 4000000, 5000000, 6000000, 7000000}}[r.Intn(4)]
			decls = append(decls, func(c *cli.Cmd) { c.Ints(cli.IntsOpt{Name: name, Desc: d, EnvVar: e, Value: v, HideValue: hide}) })
			if len(v) > 0 {
				var q []string
				for _, x := range v {
					q = append(q, strconv.Itoa(x))
				}
				def = "[" + strings.Join(q, ", ") + "]"
			}
		default:
			v := [][]float64{nil, {1.5}, {1, 2.5}, {0.5, 1e7, 3e-9}, {0.123456789012, 2.718281828459045}}[r.Intn(5)]
			decls = append(decls, func(c *cli.Cmd) {
				c.Floats64(cli.Floats64Opt{Name: name, Desc: d, EnvVar: e, Value: v, HideValue: hide})
			})
			if len(v) > 0 {
				var q []string
				for _, x := range v {
					q = append(q, fmt.Sprintf("%v", x))
				}
				def = "[" + strings.Join(q, ", ") + "]"
			}
		}
		dv := ""
		if !hide && def != "" {
			dv = "(default " + def + ")"
		}
		n.opts = append(n.opts, helpRow{optNamesFor(nm), joinParts(d, envFmt(e), dv)})
		n.hasOpts = true
	}
	na := r.Intn(3)
	if parent != nil && parent.bareKids {
		na = 0
	}
	for k := 0; k < na; k++ {
		nm := []string{"SRC", "DST", "FILE_1"}[k]
		d := hDescs[r.Intn(len(hDescs))]
		e := hEnvs[r.Intn(len(hEnvs))]
		hide := r.Intn(4) == 0
		dv := ""
		if r.Intn(5) == 0 {
			// a user-defined value type as argument: String() is its default, HideValue hides it
			txt := []string{"", "cv-arg", "[]"}[r.Intn(3)]
			decls = append(decls, func(c *cli.Cmd) {
				if e == "" && !hide && len(nm)%2 == 1 {
					c.VarArg(nm, &c17Plain{txt}, d) // the short form takes (name, value, description)
				} else {
					c.Var(cli.VarArg{Name: nm, Desc: d, EnvVar: e, Value: &c17Plain{txt}, HideValue: hide})
				}
			})
			if !hide && txt != "" {
				dv = "(default " + txt + ")"
			}
		} else if r.Intn(2) == 0 {
			v := []string{"", "dflt", "5%"}[r.Intn(3)]
			decls = append(decls, func(c *cli.Cmd) { c.String(cli.StringArg{Name: nm, Desc: d, EnvVar: e, Value: v, HideValue: hide}) })
			if !hide && v != "" {
				dv = fmt.Sprintf("(default %q)", v)
			}
		} else {
			v := [][]int{nil, {7}, {7, 8}}[r.Intn(3)]
			decls = append(decls, func(c *cli.Cmd) { c.Ints(cli.IntsArg{Name: nm, Desc: d, EnvVar: e, Value: v, HideValue: hide}) })
			if !hide && len(v) > 0 {
				var q []string
				for _, x := range v {
					q = append(q, strconv.Itoa(x))
				}
				dv = "(default [" + strings.Join(q, ", ") + "])"
			}
		}
		n.args = append(n.args, helpRow{nm, joinParts(d, envFmt(e), dv)})
		n.argNames = append(n.argNames, nm)
	}
	// spec: explicit optional form when there are arguments (so that ancestors accept an empty segment), else sometimes none
	if na > 0 || r.Intn(2) == 0 {
		s := ""
		if n.hasOpts || (version && parent == nil) {
			s = "[OPTIONS]"
		}
		for _, a := range n.argNames {
			s += " [" + a + "]"
		}
		n.spec = strings.TrimSpace(s)
		if r.Intn(3) == 0 && n.spec != "" {
			n.spec = "  " + n.spec + " \t"
		}
	}
	if depth > 0 {
		nk := r.Intn(4)
		n.bareKids = r.Intn(4) == 0
		for k := 0; k < nk; k++ {
			n.kids = append(n.kids, genHelpNode(r, fmt.Sprintf("%s%d", []string{"cmd", "sub", "leaf"}[2-depth%3], k), depth-1, n, false))
		}
	}
	n.declare = func(c *cli.Cmd) {
		for _, d := range decls {
			d(c)
		}
		c.Spec = n.spec
		c.LongDesc = n.longDesc
		if n.hidden {
			c.Hidden = true // assigned before the subcommands are declared, and only when set
		}
		c.Action = func() {
			// asked for twice where the pinned library allows it (listing the sub-commands initialises them again, which
			// panics for one that declares options or arguments): printing the help changes nothing about the command
			times := 1
			if n.printTwice {
				times = 2
			}
			if n.primeOther {
				cli.VerifSetStdErr(io.Discard)
				if n.printFromAction == 1 {
					c.PrintLongHelp()
				} else {
					c.PrintHelp()
				}
				cli.VerifSetStdErr(n.mainOut)
			}
			for twice := 0; twice < times; twice++ {
				switch n.printFromAction {
				case 1:
					c.PrintHelp()
				case 2:
					c.PrintLongHelp()
				}
			}
		}
		for _, k := range n.kids {
			k := k
			c.Command(strings.Join(k.aliases, " "), k.desc, k.declare)
		}
	}
	return n
}

func (n *hNode) all() []*hNode {
	r := []*hNode{n}
	for _, k := range n.kids {
		r = append(r, k.all()...)
	}
	return r
}

func init() {
	core.Register(&core.Check{
		ID:        "C17",
		Title:     "Help text lists exactly what was declared",
		Technique: "runtime monitor: the help the real library renders (long help via --help, short help via a usage error) is parsed back and compared with a model of the declarations",
		Rule: "random command trees (depth<=2) with random declarations per command: option name lists (only long, only short, several of each), descriptions (empty, one line, multi-line, with parentheses and $, padded), " +
			"environment lists with irregular blanks (one variable actually set, to show that the default displayed is the declared one; names in any letter case, one written with a leading $, one longer than forty characters), defaults of every built-in type (short ones and ones of more than forty characters, shown to their end) incl. the 'empty' ones (false, \"\", empty slices) and 0 / 0.0, HideValue, " +
			"hidden commands, LongDesc, aliases, a version flag; a random command of the tree is addressed and its help requested with --help (long), provoked by a usage error (short), or printed by the command's own Action through PrintHelp / PrintLongHelp (where the library allows repeated printing: twice, and half of the time after the other kind of help was printed into a discarded stream). " +
			"Oracle (DESIGN 3.8): usage line = 'Usage: <full path> <trimmed spec, synthesised when none>' + ' COMMAND [arg...]' iff it has subcommands; description (LongDesc for --help when set); sections in the order Arguments, Options, Commands; " +
			"one row per declared argument / option (first one-letter and first longer name) / non-hidden subcommand (all aliases), in declaration order, each with description, (env $A, $B) iff a list was given, (default V) iff not hidden and V non-empty; nothing else in the sections. " +
			"Layout (column widths, blank lines) is not judged. non-trivial = help of a command with >=2 declared elements; distinct by (tree, addressed command, kind of help).",
		Assumptions: []string{"the parse-back relies on the tabular layout (two leading blanks, names column, >=2 blanks, text; continuation rows have an empty names column)"},
		Cases:       tiered(8000, 300000),
		Floor:       tiered(1500, 50000),
		Run:         runC17,
	})
}

// c17Deep: a deep tree of bare commands (no options or arguments, so that an application object can be used twice); help is
// requested for two different commands in turn on the same object; only the usage path is judged on this family
func c17Deep(c *core.Ctx) {
	r := c.R
	type dn struct {
		name string
		kids []*dn
		par  *dn
	}
	var all []*dn
	var gen func(par *dn, name string, depth int) *dn
	gen = func(par *dn, name string, depth int) *dn {
		n := &dn{name: name, par: par}
		all = append(all, n)
		if depth > 0 {
			for k := 0; k < 2+r.Intn(2); k++ {
				n.kids = append(n.kids, gen(n, fmt.Sprintf("%s%c", []string{"lvl", "grp", "sub", "op", "leaf", "x"}[5-depth%6], 'a'+k), depth-1))
			}
		}
		return n
	}
	root := gen(nil, "app", 4+r.Intn(2))
	path := func(n *dn) []string {
		var p []string
		for x := n; x.par != nil; x = x.par {
			p = append([]string{x.name}, p...)
		}
		return p
	}
	var buf strings.Builder
	cli.VerifSetStdErr(&buf)
	app := cli.App("app", "")
	app.ErrorHandling = flag.ContinueOnError
	var decl func(c *cli.Cmd, n *dn)
	decl = func(c *cli.Cmd, n *dn) {
		c.Action = func() {}
		for _, k := range n.kids {
			k := k
			c.Command(k.name, "", func(sc *cli.Cmd) { decl(sc, k) })
		}
	}
	decl(app.Cmd, root)
	t1, t2 := all[r.Intn(len(all))], all[r.Intn(len(all))]
	c.Journal(map[string]interface{}{"deep_bare_tree_levels": 5, "first_help": path(t1), "second_help_on_the_same_object": path(t2)})
	for i, t := range []*dn{t1, t2} {
		buf.Reset()
		var pan interface{}
		func() {
			defer func() { pan = recover() }()
			app.Run(append(append([]string{"app"}, path(t)...), "--help"))
		}()
		c.Eval()
		if pan != nil {
			c.Violation(fmt.Sprintf("help request %d panicked: %v", i+1, pan), nil, nil)
			return
		}
		want := "Usage: " + strings.Join(append([]string{"app"}, path(t)...), " ")
		got := usageLine(buf.String())
		if got != want && !strings.HasPrefix(got, want+" ") {
			c.Violation(fmt.Sprintf("help request %d on the same application object: usage line %q, expected the path %q", i+1, got, want), nil, nil)
			return
		}
		c.Inc(fmt.Sprintf("deep_usage_path_depth_%d", len(path(t))))
	}
	c.Nontrivial("deep", strings.Join(path(t1), " "), strings.Join(path(t2), " "), fmt.Sprint(len(all)))
}

func runC17(c *core.Ctx) {
	if c.Index%8 == 7 {
		c17Deep(c)
		return
	}
	r := c.R
	version := r.Intn(3) == 0
	root := genHelpNode(r, "app", 2, nil, version)
	nodes := root.all()
	target := nodes[r.Intn(len(nodes))]
	long := r.Intn(3) > 0
	var argv []string
	for n := target; n.parent != nil; n = n.parent {
		argv = append([]string{n.aliases[r.Intn(len(n.aliases))]}, argv...)
	}
	pathLen := len(argv)
	fromAction := r.Intn(6) == 0
	switch {
	case fromAction:
		// valid invocation (every spec of the generator accepts an empty segment); the Action itself prints the help
		target.printFromAction = map[bool]int{false: 1, true: 2}[long]
		target.printTwice = true
		for _, k := range target.kids {
			if len(k.opts)+len(k.args) > 0 {
				target.printTwice = false
			}
		}
		target.primeOther = target.printTwice && r.Intn(2) == 0
	case long:
		argv = append(argv, []string{"--help", "-h"}[r.Intn(2)])
	default:
		argv = append(argv, "--definitely-not-declared")
	}
	desc := map[string]interface{}{"addressed": target.path(), "argv": argv, "help": map[bool]string{true: "long (--help, or PrintLongHelp from the Action)", false: "short (usage error, or PrintHelp from the Action)"}[long],
		"options": target.opts, "arguments": target.args, "spec": target.spec}
	c.Journal(desc)
	os.Setenv("E_SET", "7")
	defer os.Unsetenv("E_SET")
	if r.Intn(5) == 0 {
		// terminal-related variables are none of the library's business
		os.Setenv("COLUMNS", []string{"0", "10", "-1", "18", "80", "abc", ""}[r.Intn(7)])
		defer os.Unsetenv("COLUMNS")
	}
	var buf strings.Builder
	cli.VerifSetStdErr(&buf)
	target.mainOut = &buf
	if target.primeOther {
		c.Inc("other_kind_of_help_printed_first")
	}
	app := cli.App("app", root.desc)
	app.ErrorHandling = flag.ContinueOnError
	if version {
		app.Version("V version", "1.0")
	}
	root.declare(app.Cmd)
	var pan interface{}
	func() {
		defer func() { pan = recover() }()
		app.Run(append([]string{"app"}, argv...))
	}()
	c.Eval()
	if pan != nil {
		c.Violation(fmt.Sprintf("panic while printing help: %v", pan), nil, nil)
		return
	}
	out := buf.String()
	if fromAction && target.printTwice {
		// the Action asked for the help twice
		if h := len(out) / 2; len(out)%2 != 0 || out[:h] != out[h:] {
			c.Violation("printed twice by the same Action, the help text is not the same the second time", map[string]interface{}{"help": out}, nil)
			return
		} else {
			out = out[:h]
		}
	}
	nel := len(target.opts) + len(target.args) + len(target.kids)
	if nel >= 2 {
		c.Nontrivial(fmt.Sprintf("%v|%v|%v|%s|%v|%v", target.opts, target.args, target.spec, target.path(), long, len(target.kids)))
	}
	p, err := parseHelp(out)
	if err != nil {
		c.Violation("the help cannot be parsed back: "+err.Error(), map[string]interface{}{"help": out}, nil)
		return
	}
	var problems []string
	// usage line
	es := strings.TrimSpace(target.spec)
	if target.spec == "" {
		if target.hasOpts || (version && target.parent == nil) {
			es = "[OPTIONS]"
		}
		for _, a := range target.argNames {
			es += " " + a
		}
		es = strings.TrimSpace(es)
	}
	expUsage := "Usage: " + target.path()
	if es != "" {
		expUsage += " " + es
	}
	if len(target.kids) > 0 {
		expUsage += " COMMAND [arg...]"
	}
	if p.usage != normWS(expUsage) {
		problems = append(problems, fmt.Sprintf("usage line %q, expected %q", p.usage, normWS(expUsage)))
	}
	// description
	expDesc := target.desc
	if long && target.longDesc != "" {
		expDesc = target.longDesc
	}
	if p.desc != normWS(expDesc) {
		problems = append(problems, fmt.Sprintf("description %q, expected %q", p.desc, normWS(expDesc)))
	}
	// sections
	var expCmds []helpRow
	for _, k := range target.kids {
		if !k.hidden {
			expCmds = append(expCmds, helpRow{strings.Join(k.aliases, ", "), normWS(k.desc)})
		}
	}
	var expOrder []string
	cmp := func(sec string, exp []helpRow) {
		if len(exp) > 0 {
			expOrder = append(expOrder, sec)
		}
		got := p.sections[sec]
		if len(got) != len(exp) {
			problems = append(problems, fmt.Sprintf("%s %d rows, expected %d (%v vs %v)", sec, len(got), len(exp), got, exp))
			return
		}
		for i := range exp {
			if got[i].Names != exp[i].Names || got[i].Text != normWS(exp[i].Text) {
				problems = append(problems, fmt.Sprintf("%s row %d is %q / %q, expected %q / %q", sec, i, got[i].Names, got[i].Text, exp[i].Names, exp[i].Text))
			}
		}
	}
	cmp("Arguments:", target.args)
	cmp("Options:", target.opts)
	cmp("Commands:", expCmds)
	if strings.Join(p.order, " ") != strings.Join(expOrder, " ") {
		problems = append(problems, fmt.Sprintf("sections %v, expected %v", p.order, expOrder))
	}
	for _, k := range target.kids {
		if k.hidden && strings.Contains(out, k.name) {
			problems = append(problems, "hidden command "+k.name+" appears in the help")
		}
	}
	if fromAction {
		c.Inc("help_printed_from_the_action")
	}
	if !long && !fromAction && p.errLine == "" {
		problems = append(problems, "no error line before the usage of a rejected invocation")
	}
	if len(problems) > 0 {
		c.Violation(strings.Join(problems, "; "), map[string]interface{}{"help": out}, nil)
		return
	}
	c.Inc(map[bool]string{true: "long_help", false: "short_help"}[long])
	c.Add("option_rows", len(target.opts))
	c.Add("argument_rows", len(target.args))
	c.Add("command_rows", len(expCmds))
	c.Inc(fmt.Sprintf("depth_%d", pathLen))
	if c.WantSample() && nel >= 4 {
		desc["rendered"] = out
		c.Sample(desc)
	}
}
