package checks

import (
	"fmt"
	"math/rand"
	"sort"
	"strconv"
	"time"

	"verif/core"
	"verif/drive"
	"verif/gen"
	. "verif/refsem"
)

const argvPerProg = 20

func init() {
	core.Register(&core.Check{
		ID:        "C01",
		Title:     "A command line is accepted iff it is a sentence of the spec's language",
		Technique: "differential runtime monitor: real parser vs executable reference semantics, plus exact language equality of the compiled state graph against the reference automaton",
		Rule: "cases are (declarations, spec, argv): specs drawn from the spec grammar (depth<=2, every operator, folded groups, OPTIONS, annotations, optional spec-level --, optional env-backed options), " +
			"argv = a derivation of the spec, option runs shuffled, random spellings/folding, half of them mutated (drop/dup/swap/insert -- or one of ~50 junk tokens); " +
			"non-trivial = spec with >=2 operators and argv with >=2 tokens, claimed by the reference (outside the unclaimed zones); distinct by (decl, spec, argv). " +
			"One program in ten is tiny and drawn over four names that are grouped into options in two different ways, so that identical spec strings with different meanings meet in one process. Each program's compiled state graph is additionally compared for exact language equality with the reference automaton (unbounded input length).",
		Assumptions: []string{
			"reference semantics of DESIGN.md section 3.2/3.3 (independent implementation: own reader, Thompson automaton, memoised matcher)",
			"unclaimed zones are counted, not judged: -ab=v clusters, groups satisfiable by env alone, spec-level -- with unmatched adjacent occurrences, greedy-vs-regex group readings that differ",
			"token-level part bounded by the generated lengths (<= ~30 tokens); structural part exact on the compiled graph",
		},
		Cases: tiered(30000, 1500000),
		Floor: tiered(3000, 150000),
		Run:   runC01,
	})
}

func runC01(c *core.Ctx) {
	pi := c.Index / argvPerProg
	cfg := variantCfg(pi, c.Tier)
	if c.Tier == "thorough" && pi%5 == 0 {
		cfg.MaxRep = 12
	}
	p := progFor(c.Seed, "C01", pi, cfg)
	if pi%10 == 9 {
		// tiny programs over a handful of names grouped into options in two different ways: byte-identical spec strings
		// with different meanings meet in the same worker process
		p = gen.TinyProg(rand.New(rand.NewSource(core.Mix(c.Seed, c.Index/2))))
		c.Inc("tiny_programs")
	}
	nfa, nfaR := BuildNFA(p, false), BuildNFA(p, true)
	if c.Index%argvPerProg == 0 {
		structural(c, p)
	}
	argv := gen.Argv(c.R, p, cfg)
	if c.R.Intn(6) == 0 {
		// a sentence of another spec over the same declarations: a near miss
		argv = gen.Argv(c.R, gen.AltProg(c.R, p, cfg), cfg)
		c.Inc("foreign_sentences")
	}
	if hasHelp(argv) {
		c.Inc("skipped_help")
		return
	}
	d := descOf(p, argv)
	c.Journal(d)
	t0 := time.Now()
	var obs *drive.Obs
	if c.Index%4 == 3 {
		// declared with the built-in Bool/String/Strings variables instead of recording types: acceptance must not depend
		// on what kind of variable receives the values (as long as every value given to a flag is a boolean)
		for _, it := range func() []gen.Item { its, _ := gen.ReadAll(p, argv); return its }() {
			if it.Oc != nil && it.Oc.Opt.Flag {
				if _, err := strconv.ParseBool(it.Oc.Val); err != nil {
					c.Inc("builtin_skipped_non_boolean_flag_value")
					return
				}
			}
		}
		app := drive.Single(p)
		app.Builtin = true
		obs = drive.Run(app, argv)
		c.Inc("declared_with_builtin_types")
	} else {
		obs = runOnceOrTwice(c, p, argv, cfg)
	}
	if c.Replay {
		fmt.Printf("library: %v accepted=%v err=%v\n", time.Since(t0), obs.Accepted(), obs.Err)
	}
	c.LibDone()
	c.Eval()
	c.Max("argv_len", len(argv))
	if obs.SpecErr != nil {
		c.Violation("a well-formed spec did not compile: "+obs.SpecErr.Text, nil, nil)
		return
	}
	if obs.Pan != nil || obs.Exit != nil || (obs.Ran > 0) != (obs.Err == nil) || obs.Ran > 1 {
		c.Violation(fmt.Sprintf("undocumented outcome: panic=%v exit=%v ran=%d err=%v", obs.Pan, obs.Exit, obs.Ran, obs.Err), nil, nil)
		return
	}
	t0 = time.Now()
	v, gd := decideBoth(p, nfa, nfaR, argv)
	if c.Replay {
		fmt.Printf("reference: %v accept=%v unclaimed=%v steps=%d\n", time.Since(t0), v.Accept, v.Unclaimed, v.Steps)
	}
	if gd {
		c.Inc("unclaimed_group_readings_differ")
	}
	if v.Unclaimed {
		c.Inc("unclaimed")
		return
	}
	hist := map[string]int{}
	ops := opCount(p.AST, hist)
	if ops >= 2 && len(argv) >= 2 {
		c.Nontrivial(d.Decl, d.Spec, fmt.Sprintf("%q", argv))
		for k, n := range hist {
			c.Add("op_"+k, n)
		}
	}
	if v.Accept != obs.Accepted() {
		c.Violation(fmt.Sprintf("reference accept=%v, library accept=%v (err=%v)", v.Accept, obs.Accepted(), obs.Err), map[string]interface{}{"reference_binding": bindStr(p, Binding{Opts: v.OptBind}), "library_binding": bindStr(p, obs.Bind[0])}, nil)
		return
	}
	if v.Accept {
		c.Inc("accepted")
	} else {
		c.Inc("rejected")
	}
	if c.WantSample() && ops >= 3 && len(argv) >= 3 {
		d.Note = fmt.Sprintf("accept=%v", v.Accept)
		c.Sample(d)
	}
}

// structural compares the compiled state graph with the reference automaton for exact language equality
func structural(c *core.Ctx, p *Prog) {
	c.Journal(CaseDesc{Decl: DeclStr(p), Spec: p.Spec, Note: "structural: compile and compare the state graph"})
	gb, sb, serr, pan := drive.ImplGNFA(p)
	if pan != nil {
		c.Violation(fmt.Sprintf("compiling a well-formed spec panicked: %v", pan), nil, nil)
		return
	}
	if serr != nil {
		c.Violation("a well-formed spec did not compile: "+serr.Text, nil, nil)
		return
	}
	eqWith := func(regex bool) (bool, []string) {
		ga, sa := RefGNFA(p, regex)
		alpha := map[string]bool{}
		for s := range sa {
			alpha[s] = true
		}
		for s := range sb {
			alpha[s] = true
		}
		var al []string
		for s := range alpha {
			al = append(al, s)
		}
		sort.Strings(al)
		return Equivalent(ga, gb, al)
	}
	c.Inc("graphs_compared")
	c.Max("graph_states", gb.N)
	// option groups may be compiled as one group matcher (as the pinned library does) or as a loop over its options
	if eq, w := eqWith(false); !eq {
		if eq2, _ := eqWith(true); !eq2 {
			c.Violation("the compiled state graph and the reference automaton denote different languages", map[string]interface{}{"distinguishing_word": w}, nil)
		}
	}
}
