package checks

import (
	"flag"
	"fmt"
	"math/rand"
	"strings"

	"verif/core"
	"verif/drive"
	"verif/gen"
	. "verif/refsem"
)

func init() {
	core.Register(&core.Check{
		ID:        "C03",
		Title:     "Spec compilation and argument parsing always terminate without crashing",
		Technique: "crash / CPU-budget watchdog around isolated worker processes running the real compiler and parser on hostile generated specs, command lines and environment subsets",
		Rule: "a case is (spec string, argv, every subset of the <=5 declared options backed by a set environment variable): specs are (i) random bytes and random strings over the spec alphabet, " +
			"(ii) concatenations of fragments biased to dangerous shapes (nested repetitions of optional groups, -- inside repetitions and choices, long | chains, deep bracket nesting up to 64), " +
			"(iii) grammar-derived specs (depth<=3, spec-level --), (iv) ambiguous repetitions such as '(X | Y)... -a' on lines of 20-64 tokens that are rejected only after every split was tried (2% of the cases); argv = random mix of declared option spellings, positionals, --, -, junk (<=16 tokens). " +
			"Family T (one case in fifty): command trees (sub-commands declaring -h/--help or nothing at all, version flag) on command lines salted with help / version tokens, --, command names and junk must end in a documented way. " +
			"Refuting events: worker death, a panic other than the positioned spec error, per-case CPU budget (20 CPU-seconds on the thread that runs the library: clock_gettime on the thread CPU clock) exceeded, spec error position outside [0,len(spec)], Error() panicking, " +
			"an outcome that is neither acceptance nor a returned usage error. non-trivial = spec of >=3 bytes; distinct by (spec, argv).",
		Assumptions: []string{
			"'never hangs' is restated as bounded progress: every case (compile + parse under all env subsets) within 20 CPU-seconds per library call, inputs bounded (spec <= 256 bytes, nesting <= 64, <= 5 options, argv <= 16 tokens, 64 for the long-line family)",
			"stack bounded with debug.SetMaxStack(64 MiB), heap watchdog at 3 GiB",
		},
		Cases: tiered(60000, 3000000),
		Floor: tiered(5000, 200000),
		Run:   runC03,
	})
}

func c03Decls() ([]*OptDecl, []*ArgDecl) {
	return []*OptDecl{
		{Names: []string{"a", "aa"}, Flag: true},
		{Names: []string{"b"}, Flag: true},
		{Names: []string{"o", "out"}},
		{Names: []string{"p"}, Multi: true},
		{Names: []string{"e", "env-x"}},
	}, []*ArgDecl{{Name: "X", Multi: true}, {Name: "Y", Multi: true}}
}

var c03Frags = []string{"[", "]", "(", ")", "|", "...", "-a", "--aa", "-o", "--out", "-ab", "-e", "OPTIONS", "X", "Y", "--", "-- ", " ", "\t", "=<x>", "-", ".", "=", "<", ">", "-z", "Q", "_", "1",
	"\x00", "\xff", "é", "[OPTIONS]", "X...", "[X]...", "[-a]...", "(--)...", "[-e...]", "[[X]...]...", "([X... X]...)", "[-e]...", "(-- | [X])...", "[-- ]...", "[Y X]...", "[Y...]", "-p...", "[-p...]...", " | ", "]...", ")..."}

const c03Alphabet = " \t[]()|.-=<>aboXY1_"

func c03Spec(r *rand.Rand, thorough bool) (string, string, *Prog) {
	maxLen := 24
	maxFrag := 14
	if thorough {
		maxLen, maxFrag = 256, 48
	}
	switch r.Intn(10) {
	case 0:
		b := make([]byte, r.Intn(16))
		r.Read(b)
		return string(b), "bytes", nil
	case 1, 2:
		n := r.Intn(maxLen)
		b := make([]byte, n)
		for i := range b {
			b[i] = c03Alphabet[r.Intn(len(c03Alphabet))]
		}
		return string(b), "alphabet", nil
	case 3, 4, 5, 6:
		k := r.Intn(maxFrag)
		var sb strings.Builder
		for j := 0; j < k && sb.Len() < 256; j++ {
			sb.WriteString(c03Frags[r.Intn(len(c03Frags))])
			if r.Intn(3) == 0 {
				sb.WriteByte(' ')
			}
		}
		return sb.String(), "fragments", nil
	case 7:
		// deep nesting of optional / grouped repetitions around a core
		depth := 1 + r.Intn(64)
		if !thorough {
			depth = 1 + r.Intn(24)
		}
		core := []string{"X", "-e", "--", "X Y", "-a | X", "[X]", "-ab", "OPTIONS"}[r.Intn(8)]
		s := core
		for d := 0; d < depth; d++ {
			switch r.Intn(4) {
			case 0:
				s = "[" + s + "]..."
			case 1:
				s = "(" + s + ")..."
			case 2:
				s = "[" + s + "]"
			default:
				s = "[" + s + " | Y]..."
			}
			if len(s) > 250 {
				break
			}
		}
		return s, "nesting", nil
	default:
		p := gen.GenProg(r, gen.Cfg{AllowDD: true, Depth: 3, MaxOpts: 6})
		return p.Spec, "grammar", p
	}
}

var c03Tokens = []string{"-a", "--aa", "-b", "-ab", "-ba", "-o", "v", "-ov", "-o=v", "--out", "--out=v", "-p", "1", "-p2", "-e", "x", "--env-x=y", "-e=z", "x", "y", "p1", "p2", "--", "-", "-z", "--zz", "-o=", "", " ", "-abz", "-ab=v", "---", "-=", "é", "-a=false", "-bo", "-boq", "+1", "%d", "-5", "caf\xe9", strings.Repeat("-a", 150), strings.Repeat("x", 300), "--" + strings.Repeat("n", 100)}

func c03Argv(r *rand.Rand) []string {
	n := r.Intn(9)
	if r.Intn(6) == 0 {
		n = r.Intn(17)
	}
	a := make([]string, n)
	for i := range a {
		a[i] = c03Tokens[r.Intn(len(c03Tokens))]
	}
	return a
}

type c03Case struct {
	Spec string   `json:"spec"`
	Argv []string `json:"argv"`
	Env  string   `json:"env_backed_options"`
	Gen  string   `json:"generator"`
}

// c03Long: ambiguous repetitions on long command lines that are finally rejected (or accepted at the very end): the
// repaired parser is polynomial here, an exponential backtracker needs 2^n or 3^n steps
var c03LongSpecs = []string{"(X | Y)... -a", "X... Y... -a", "[X]... [Y]... -o", "(X | Y | X Y)...", "[-a] (X | Y)... -o", "(X | Y)... -- X", "[OPTIONS] (X | Y)... -p", "(X... | Y...)... -a", "[-a] X... -- Y... X"}

func c03Long(c *core.Ctx) {
	spec := c03LongSpecs[c.R.Intn(len(c03LongSpecs))]
	n := []int{20, 28, 40, 64}[c.R.Intn(4)]
	var argv []string
	if c.R.Intn(3) == 0 {
		argv = append(argv, "--")
	}
	for i := 0; i < n; i++ {
		argv = append(argv, []string{"f", "g", "p1"}[c.R.Intn(3)])
	}
	switch c.R.Intn(3) {
	case 0:
		argv = append(argv, "-z") // undeclared: rejected after everything was tried
	case 1:
		argv = append(argv, "-a")
	}
	opts, args := c03Decls()
	p := &Prog{Opts: opts, Args: args, Spec: spec}
	mask := c.R.Intn(32)
	var envs []string
	for i, o := range opts {
		o.EnvSet = mask&(1<<uint(i)) != 0
		if o.EnvSet {
			envs = append(envs, o.Dashed()[0])
		}
	}
	d := c03Case{Spec: spec, Argv: argv, Env: strings.Join(envs, ","), Gen: "long ambiguous repetition"}
	c.Journal(d)
	obs := drive.Run(drive.Single(p), argv)
	c.LibDone()
	c.Eval()
	c.Inc("gen_long_ambiguous")
	c.Max("long_line_tokens", len(argv))
	c.Nontrivial(spec, fmt.Sprintf("%q", argv), d.Env)
	if obs.SpecErr != nil || obs.Pan != nil || obs.Exit != nil || (obs.Ran > 0) != (obs.Err == nil) {
		c.Violation(fmt.Sprintf("undocumented outcome on a long line: specerr=%v panic=%v ran=%d err=%v", obs.SpecErr, obs.Pan, obs.Ran, obs.Err), nil, nil)
	}
}

// c03Tree: command trees (some sub-commands declare -h / --help / -V themselves, some declare nothing) on hostile
// command lines made of command names, help and version tokens, -- and junk: Run ends in a documented way
func c03Tree(c *core.Ctx) {
	root, version := treeFor(c, "C03", 1, false)
	var names []string
	var walk func(t *drive.Cmd)
	walk = func(t *drive.Cmd) {
		if t.Parent != nil {
			names = append(names, t.Aliases...)
		}
		for _, k := range t.Kids {
			walk(k)
		}
	}
	walk(root)
	argv, _ := treeInvocation(c.R, root, version, 50)
	extra := []string{"-h", "--help", "-V", "--version", "--", "-h=1", "--help=x", "-hv", "--host", "3", "-", "nosuch", "--host=h"}
	for k := c.R.Intn(4); k > 0; k-- {
		tok := extra[c.R.Intn(len(extra))]
		if len(names) > 0 && c.R.Intn(3) == 0 {
			tok = names[c.R.Intn(len(names))]
		}
		i := c.R.Intn(len(argv) + 1)
		argv = append(argv[:i], append([]string{tok}, argv[i:]...)...)
	}
	d := treeDesc{Tree: treeStr(root), Argv: argv}
	c.Journal(d)
	o := drive.Run(&drive.App{Root: root, Policy: flag.ContinueOnError, Version: version}, argv)
	c.LibDone()
	c.Eval()
	c.Inc("gen_command_tree")
	c.Nontrivial(d.Tree, fmt.Sprintf("%q", argv))
	if o.SpecErr != nil || o.Pan != nil || o.Exit != nil || (o.Ran > 0 && o.Err != nil) || o.Ran > 1 {
		c.Violation(fmt.Sprintf("undocumented outcome on a command tree: specerr=%v panic=%v exit=%v ran=%d err=%v", o.SpecErr, o.Pan, o.Exit != nil, o.Ran, o.Err), nil, nil)
	}
}

func runC03(c *core.Ctx) {
	if c.Index%50 == 48 {
		c03Tree(c)
		return
	}
	if c.Index%50 == 49 {
		c03Long(c)
		return
	}
	spec, kind, gp := c03Spec(c.R, c.Tier == "thorough")
	argv := c03Argv(c.R)
	opts, args := c03Decls()
	// grammar-derived specs come with their own declarations (<=5 options)
	if gp != nil {
		opts, args = gp.Opts, gp.Args
		if r := c.R.Intn(2); r == 0 {
			argv = gen.Argv(c.R, gp, gen.Cfg{})
		}
	}
	p := &Prog{Opts: opts, Args: args, Spec: spec}
	c.Inc("gen_" + kind)
	if len(spec) >= 3 {
		c.Nontrivial(spec, fmt.Sprintf("%q", argv))
	}
	nsub := 1 << uint(len(opts))
	compiled := false
	for k := 0; k < nsub && k < 32; k++ {
		mask := k
		if nsub > 32 && k > 0 {
			mask = c.R.Intn(nsub) // more than five options: 32 sampled subsets (the empty one included)
		}
		var envs []string
		for i, o := range opts {
			o.EnvSet = mask&(1<<uint(i)) != 0
			if o.EnvSet {
				envs = append(envs, o.Dashed()[0])
			}
		}
		d := c03Case{Spec: spec, Argv: argv, Env: strings.Join(envs, ","), Gen: kind}
		c.Journal(d)
		obs := drive.Run(drive.Single(p), argv)
		c.Eval()
		switch {
		case obs.SpecErr != nil:
			if obs.SpecErr.Pos < 0 || obs.SpecErr.Pos > len(spec) {
				c.Violation(fmt.Sprintf("spec error position %d outside [0,%d]", obs.SpecErr.Pos, len(spec)), nil, nil)
			}
			if strings.HasPrefix(obs.SpecErr.Text, "Error() panicked") {
				c.Violation("the spec error cannot be printed: "+obs.SpecErr.Text, nil, nil)
			}
			if obs.Ran > 0 {
				c.Violation("the Action ran although the spec is rejected", nil, nil)
			}
			c.Inc("spec_error")
		case obs.Pan != nil:
			c.Violation(fmt.Sprintf("Run panicked with something that is not a positioned spec error: %v", obs.Pan), nil, nil)
		case obs.Exit != nil:
			c.Violation(fmt.Sprintf("exit(%d) under ContinueOnError", *obs.Exit), nil, nil)
		case obs.Ran == 1 && obs.Err == nil:
			compiled = true
			c.Inc("accepted")
		case obs.Ran == 0 && obs.Err != nil:
			compiled = true
			c.Inc("usage_error")
		default:
			c.Violation(fmt.Sprintf("undocumented outcome ran=%d err=%v", obs.Ran, obs.Err), nil, nil)
		}
		if !compiled {
			break // the environment cannot matter when the spec does not compile
		}
		if mask > 0 {
			c.Inc("env_subsets_run")
		}
	}
	if compiled {
		c.Inc("specs_compiled")
		c.Max("compiled_spec_len", len(spec))
		if c.WantSample() && len(spec) > 12 && kind != "grammar" {
			c.Sample(c03Case{Spec: spec, Argv: argv, Env: "all 32 subsets", Gen: kind})
		}
	}
}
