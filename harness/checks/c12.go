package checks

import (
	"fmt"
	"strings"

	"verif/core"
	"verif/drive"
	"verif/gen"
	. "verif/refsem"
)

func init() {
	core.Register(&core.Check{
		ID:        "C12",
		Title:     "An environment value can only satisfy an option, never restrict the command line",
		Technique: "metamorphic runtime monitor: the same real application run with no option backed by the environment and with a random subset backed by set, valid variables",
		Rule: "family G: programs and command lines of C01; run once with no env-backed option, once with a random non-empty subset of the declared options backed by a set valid variable; " +
			"accepted without => accepted with, and (specs without --) identical bound values for every option written on the command line. family R: a required single option absent from the command line must be " +
			"accepted when its variable is set. family N: the same env-backed option written 1-10 times (any spelling) under [OPTIONS], a folded group, -e..., [-e]..., mixed with other options, must be accepted " +
			"with all its values bound in order. non-trivial = a pair whose command line names at least one option, or a family R/N case; distinct by (decl, spec, argv, env subset).",
		Assumptions: []string{
			"value identity only for specs without a spec-level -- (as the quantifier says); argument distribution may differ (another derivation) and is not compared",
			"environment variables are set around the declarations by the worker, one case at a time",
		},
		Cases: tiered(40000, 1500000),
		Floor: tiered(4000, 150000),
		Run:   runC12,
	})
}

// c12Many: more than 64 options under [OPTIONS], env values on some of the last ones (beyond any machine-word bitset)
func c12Many(c *core.Ctx) {
	n := 66 + c.R.Intn(15)
	p := &Prog{}
	for i := 0; i < n; i++ {
		o := &OptDecl{Names: []string{fmt.Sprintf("opt%02d", i)}}
		if i >= 60 && c.R.Intn(2) == 0 || c.R.Intn(20) == 0 {
			o.EnvSet = true
		}
		p.Opts = append(p.Opts, o)
	}
	x := &ArgDecl{Name: "X", Multi: true}
	p.Args = []*ArgDecl{x}
	p.AST = &Node{K: KSeq, Kids: []*Node{{K: KOptional, Kids: []*Node{{K: KAllOpts}}}, {K: KArg, Arg: x}}}
	p.Spec = p.AST.String()
	var argv []string
	want := map[*OptDecl][]string{}
	for k := 0; k < 1+c.R.Intn(4); k++ {
		o := p.Opts[c.R.Intn(n)]
		v := gen.Vals[c.R.Intn(5)]
		argv = append(argv, o.Dashed()[0]+"="+v)
		want[o] = append(want[o], v)
	}
	argv = append(argv, "positional")
	d := CaseDesc{Decl: fmt.Sprintf("%d valued options opt00..opt%02d, env-backed beyond position 60", n, n-1), Spec: p.Spec, Argv: argv}
	c.Journal(d)
	c.Nontrivial("M", fmt.Sprintf("%q", argv), fmt.Sprint(n))
	obs := drive.Run(drive.Single(p), argv)
	c.LibDone()
	c.Eval()
	if !obs.Accepted() {
		c.Violation("a command line that only uses declared options is rejected (many options, some with an environment value)", map[string]interface{}{"outcome": drive.OutcomeKey(&Prog{}, obs)}, nil)
		return
	}
	for o, vs := range want {
		if fmt.Sprintf("%q", obs.Bind[0].Opts[o]) != fmt.Sprintf("%q", vs) {
			c.Violation(fmt.Sprintf("option %s written %q, bound %q", o.Dashed()[0], vs, obs.Bind[0].Opts[o]), nil, nil)
			return
		}
	}
	c.Inc("M_many_options_accepted")
}

func runC12(c *core.Ctx) {
	if c.Index%40 == 39 {
		c12Many(c)
		return
	}
	switch c.Index % 5 {
	case 3:
		c12Required(c)
	case 4:
		c12Repeated(c)
	default:
		c12General(c)
	}
}

func c12General(c *core.Ctx) {
	pi := c.Index / argvPerProg
	cfg := gen.Cfg{AllowDD: pi%3 == 0}
	p := progFor(c.Seed, "C12", pi, cfg)
	if len(p.Opts) == 0 {
		c.Inc("G_skipped_no_options")
		return
	}
	argv := gen.Argv(c.R, p, cfg)
	if hasHelp(argv) {
		return
	}
	if FoldedEq(p, argv) {
		c.Inc("G_unclaimed_folded_eq")
		return
	}
	for _, o := range p.Opts {
		o.EnvSet = false
	}
	d := descOf(p, argv)
	c.Journal(d)
	o1 := drive.Run(drive.Single(p), argv)
	c.LibDone()
	c.Eval()
	var envs []string
	for len(envs) == 0 {
		for _, o := range p.Opts {
			o.EnvSet = c.R.Intn(2) == 0
			if o.EnvSet {
				envs = append(envs, o.Dashed()[0])
			}
		}
	}
	d2 := descOf(p, argv)
	c.Journal(d2)
	o2 := drive.Run(drive.Single(p), argv)
	c.LibDone()
	c.Eval()
	named := 0
	for _, t := range argv {
		if strings.HasPrefix(t, "-") && len(t) > 1 && t != "--" {
			named++
		}
	}
	if named > 0 {
		c.Nontrivial("G", d2.Decl, d2.Spec, fmt.Sprintf("%q", argv))
	}
	if o2.SpecErr != nil || o2.Pan != nil || o2.Exit != nil {
		c.Violation(fmt.Sprintf("undocumented outcome with the environment set: %s", drive.OutcomeKey(p, o2)), nil, nil)
		return
	}
	if !o1.Accepted() {
		if o2.Accepted() {
			c.Inc("G_accepted_only_with_env")
		} else {
			c.Inc("G_rejected_both")
		}
		return
	}
	if !o2.Accepted() {
		c.Violation("accepted without environment values, rejected with them", map[string]interface{}{"env_backed": envs, "without": drive.OutcomeKey(p, o1)}, nil)
		return
	}
	c.Inc("G_accepted_both")
	if !p.HasDD() {
		b1, b2 := o1.Bind[0], o2.Bind[0]
		for _, o := range p.Opts {
			if len(b1.Opts[o]) > 0 && fmt.Sprintf("%q", b1.Opts[o]) != fmt.Sprintf("%q", b2.Opts[o]) {
				c.Violation(fmt.Sprintf("option %s written on the command line: %q without the environment, %q with it", o.Dashed()[0], b1.Opts[o], b2.Opts[o]), map[string]interface{}{"env_backed": envs}, nil)
				return
			}
		}
		c.Inc("G_values_identical")
	}
	if c.WantSample() && named >= 2 {
		d2.Note = "accepted with and without the environment, same option values"
		c.Sample(d2)
	}
}

// a required single option absent from the command line is satisfied by its environment value
func c12Required(c *core.Ctx) {
	pool := gen.OptPool()
	o := pool[c.R.Intn(len(pool))]
	o.EnvSet = true
	if !o.Flag {
		// any non-empty text is a valid value for a string-like option, whatever characters it contains
		o.EnvVal = []string{"envval", "$tr0ng", "$1", "a$b", "${x}", "100%", "%s", " ", "-", "--"}[c.R.Intn(10)]
	}
	x := &ArgDecl{Name: "X", Multi: true}
	name := o.Dashed()[c.R.Intn(len(o.Dashed()))]
	opt := &Node{K: KOpt, Opt: o, Name: name}
	var ast *Node
	shape := c.R.Intn(5)
	switch shape {
	case 0:
		ast = &Node{K: KSeq, Kids: []*Node{opt, {K: KArg, Arg: x}}}
	case 1:
		ast = &Node{K: KSeq, Kids: []*Node{{K: KArg, Arg: x}, opt}}
	case 2:
		ast = &Node{K: KSeq, Kids: []*Node{{K: KRep, Kids: []*Node{opt}}, {K: KArg, Arg: x}}}
	case 3:
		ast = &Node{K: KSeq, Kids: []*Node{{K: KGroup, Kids: []*Node{{K: KSeq, Kids: []*Node{opt, {K: KArg, Arg: x}}}}}}}
	default:
		ast = &Node{K: KSeq, Kids: []*Node{opt}}
	}
	p := &Prog{Opts: []*OptDecl{o}, Args: []*ArgDecl{x}, AST: ast}
	p.Spec = ast.String()
	var argv []string
	if shape != 4 {
		argv = []string{gen.Poss[c.R.Intn(len(gen.Poss))]}
	}
	// the same with a -- on the line: in front (what follows is positional, also when dash-prefixed) or at the very end
	switch c.R.Intn(5) {
	case 1:
		argv = append([]string{"--"}, argv...)
	case 2:
		if shape != 4 {
			argv = []string{"--", []string{"-x", "-file", "--zz", "-"}[c.R.Intn(4)]}
		}
	case 3:
		argv = append(argv, "--")
	}
	if len(argv) > 1 || (len(argv) == 1 && argv[0] == "--") {
		if v, _ := decideBoth(p, BuildNFA(p, false), BuildNFA(p, true), argv); !v.Accept || v.Unclaimed {
			c.Inc("R_variant_not_claimed")
			return
		}
		c.Inc("R_with_dd_on_the_line")
	}
	d := descOf(p, argv)
	c.Journal(d)
	c.Nontrivial("R", d.Decl, d.Spec, fmt.Sprintf("%q", argv))
	obs := drive.Run(drive.Single(p), argv)
	c.LibDone()
	c.Eval()
	if !obs.Accepted() {
		c.Violation("a required option absent from the command line is not satisfied by its environment value", map[string]interface{}{"outcome": drive.OutcomeKey(p, obs)}, nil)
		return
	}
	o.EnvSet = false
	c.Journal(descOf(p, argv))
	if obs := drive.Run(drive.Single(p), argv); obs.Accepted() {
		c.Violation("control: a required option absent from the command line is accepted without any environment value", nil, nil)
		return
	}
	c.LibDone()
	c.Eval()
	c.Inc("R_satisfied_by_env")
}

// an env-backed option written several times is never rejected because it also has an environment value
func c12Repeated(c *core.Ctx) {
	pool := gen.OptPool()
	c.R.Shuffle(len(pool), func(i, j int) { pool[i], pool[j] = pool[j], pool[i] })
	var shorts []*OptDecl
	for _, o := range pool {
		if len(o.Names[0]) == 1 {
			shorts = append(shorts, o)
		}
	}
	e := shorts[0]
	others := shorts[1:3]
	e.EnvSet = true
	if c.R.Intn(2) == 0 {
		others[0].EnvSet = true
	}
	opts := []*OptDecl{e, others[0], others[1]}
	c.R.Shuffle(len(opts), func(i, j int) { opts[i], opts[j] = opts[j], opts[i] })
	x := &ArgDecl{Name: "X", Multi: true}
	eopt := &Node{K: KOpt, Opt: e, Name: e.Dashed()[0]}
	var ast *Node
	onlyE := false
	switch c.R.Intn(5) {
	case 0:
		ast = &Node{K: KSeq, Kids: []*Node{{K: KOptional, Kids: []*Node{{K: KAllOpts}}}, {K: KOptional, Kids: []*Node{{K: KArg, Arg: x}}}}}
	case 1:
		ast = &Node{K: KSeq, Kids: []*Node{{K: KOptGroup, Opts: append([]*OptDecl{}, opts...)}}}
	case 2:
		ast = &Node{K: KSeq, Kids: []*Node{{K: KRep, Kids: []*Node{eopt}}, {K: KOptional, Kids: []*Node{{K: KArg, Arg: x}}}}}
		onlyE = true
	case 3:
		ast = &Node{K: KSeq, Kids: []*Node{{K: KRep, Kids: []*Node{{K: KOptional, Kids: []*Node{eopt}}}}}}
		onlyE = true
	default:
		ast = &Node{K: KSeq, Kids: []*Node{{K: KOptional, Kids: []*Node{{K: KOptGroup, Opts: append([]*OptDecl{}, opts...)}}}, {K: KArg, Arg: x}}}
	}
	p := &Prog{Opts: opts, Args: []*ArgDecl{x}, AST: ast}
	p.Spec = ast.String()
	n := 1 + c.R.Intn(4)
	if c.R.Intn(10) == 0 {
		n = 5 + c.R.Intn(6)
	}
	var items []gen.Item
	var want []string
	for i := 0; i < n; i++ {
		v := "true"
		if !e.Flag {
			v = gen.Vals[c.R.Intn(len(gen.Vals))]
		}
		want = append(want, v)
		items = append(items, gen.Item{Oc: &Occ{Opt: e, Val: v}})
		if !onlyE && c.R.Intn(2) == 0 {
			o := others[c.R.Intn(2)]
			ov := "true"
			if !o.Flag {
				ov = "w"
			}
			items = append(items, gen.Item{Oc: &Occ{Opt: o, Val: ov}})
		}
	}
	if !gen.Respellable(items) {
		return
	}
	argv := gen.Render(c.R, items, true, nil)
	if strings.Contains(p.Spec, " X") && !strings.Contains(p.Spec, "[X]") {
		argv = append(argv, "pos")
	}
	d := descOf(p, argv)
	c.Journal(d)
	c.Nontrivial("N", d.Decl, d.Spec, fmt.Sprintf("%q", argv))
	obs := drive.Run(drive.Single(p), argv)
	c.LibDone()
	c.Eval()
	if !obs.Accepted() {
		c.Violation("an option written on the command line is rejected although the spec allows it; it also has an environment value", map[string]interface{}{"outcome": drive.OutcomeKey(p, obs)}, nil)
		return
	}
	if got := obs.Bind[0].Opts[e]; fmt.Sprintf("%q", got) != fmt.Sprintf("%q", want) {
		c.Violation(fmt.Sprintf("option %s written %q, bound %q", e.Dashed()[0], want, got), nil, nil)
		return
	}
	if n > 4 {
		c.Inc("N_written_5_to_10_times")
	} else {
		c.Inc(fmt.Sprintf("N_written_%d_times", n))
	}
	if c.WantSample() && n >= 3 {
		c.Sample(d)
	}
}
