package checks

import (
	"flag"
	"fmt"
	"math"
	"math/rand"
	"os"
	"strconv"
	"strings"

	cli "github.com/jawher/mow.cli"

	"verif/core"
	"verif/drive"
)

// ---- shared engine for C06 / C13 / C15: one typed variable, its default, an environment list, command-line values ----

type vkind int

const (
	kBool vkind = iota
	kString
	kInt
	kFloat
	kStrings
	kInts
	kFloats
)

var vkindName = []string{"Bool", "String", "Int", "Float64", "Strings", "Ints", "Floats64"}

func (k vkind) multi() bool { return k >= kStrings }

// parse is the oracle: Go's strconv
func (k vkind) parse(s string) (interface{}, bool) {
	switch k {
	case kBool:
		b, err := strconv.ParseBool(s)
		return b, err == nil
	case kString, kStrings:
		return s, true
	case kInt, kInts:
		i, err := strconv.ParseInt(s, 10, 64)
		return int(i), err == nil
	default:
		f, err := strconv.ParseFloat(s, 64)
		return f, err == nil
	}
}

func veq(a, b interface{}) bool {
	fa, ok1 := a.(float64)
	fb, ok2 := b.(float64)
	if ok1 && ok2 {
		return math.Float64bits(fa) == math.Float64bits(fb) || (math.IsNaN(fa) && math.IsNaN(fb))
	}
	return a == b
}

func veqList(a, b []interface{}) bool {
	if len(a) != len(b) {
		return false
	}
	for i := range a {
		if !veq(a[i], b[i]) {
			return false
		}
	}
	return true
}

// edge-case token pool (C13)
var vTokens = []string{"0", "1", "-1", "+5", "007", "0x10", "1e3", "1.5", "-0", ".5", "5.", "1_000", "9223372036854775807", "9223372036854775808", "-9223372036854775808", "-9223372036854775809",
	"18446744073709551616", "1e400", "-1e400", "1e-400", "1e308", "1.7976931348623157e308", "1.8e308", "4.9e-324", "0x1p-1074", "0X1P+2", "0x1p-2", "inf", "-Inf", "+inf", "Infinity", "infinity", "INF", "NaN", "nan", "nAn", "NaN(1)",
	"true", "false", "T", "F", "t", "f", "TRUE", "True", "FALSE", "False", "tRUE", "true ", "yes", "no", "on", "off", "y", "", " ", "  ", " 1", "1 ", "\t1", "1\n", "a", "é", "1,2", "0b1", "0o7", "0o17", "017", "0x", "0b",
	"١", "１", "０", "1e", "e1", ".", "-", "+", "--1", "1__0", "_1", "1_", "0_1", "0.1e-1", "1E5", "3.0", "-0.0", "+0", "\x00", "\xff\xfe", "a,b", ",", "1,", ",1", "=", "-x", "--", strings.Repeat("9", 300), strings.Repeat("1", 40) + ".5",
	"000000000000000000042", "+00000000000000000000007", "-000000000000000000000", "0000000000000000000000.50", "08", "09", "010", "0100", "$HOME", "$1", "a$b", "${x}", "100%", "%d", "caf\xe9.txt",
	// tokens that are complete Go literals: bound byte for byte, never unquoted
	"\\d+", "\\\\server\\share", "\\", "\\5", "\"quoted\"", "\"a\\tb\"", "`raw`", "'x'", "\"\"", "\"1\"", "2147483648", "-2147483649", "4294967296", "1700000000000", "3.4e39", "1e39", "16777217",
	"+-5", "++5", "-+5", "+-0", "+ 5", "+.5", "++1.5", "1;2", "a;b", "1|2", "1/2", "1 2"}

// mostly valid tokens (C06)
var vPlain = map[vkind][]string{
	kBool: {"true", "false", "1", "0", "T", "f"}, kString: {"a", "bc", "x y", "7", "é", "\"q\"", "k=v,ro"}, kInt: {"0", "1", "-7", "42", "+5", "007"}, kFloat: {"0", "1.5", "-2", "1e3", ".5", "inf"},
	kStrings: {"a", "bc", "x y", "7", "", "\"q\"", "`r`"}, kInts: {"0", "1", "-7", "42", "3000000000", "-4294967296"}, kFloats: {"0", "1.5", "-2", "1e3", "1e39"},
}

type vcase struct {
	Kind    string   `json:"type"`
	Role    string   `json:"role"` // option | argument
	Decl    string   `json:"declared_with"`
	Default []string `json:"default"`
	EnvVars []string `json:"env_vars"`                               // name=value | name (unset)
	Hide    bool     `json:"hide_value,omitempty"`                   // HideValue: only the help may differ
	Tail    bool     `json:"options_group_and_tail,omitempty"`       // option declared under [OPTIONS] [TAIL...] with one more positional on the line
	After   bool     `json:"options_after_the_positional,omitempty"` // spec [OPTIONS] TAIL [OPTIONS], the option tokens written after the positional
	Cli     []string `json:"command_line_values"`
	Argv    []string `json:"argv"`

	kind     vkind
	asArg    bool
	def      []interface{}
	envName  []string
	envVal   []string // "\x00" = unset
	declIdx  int
	formSalt int
	// the caller's default slices (multi-valued types), shared by every application built for this case
	dS []string
	dI []int
	dF []float64
}

const vUnset = "\x00unset"

func (v *vcase) finish() {
	v.Kind = vkindName[v.kind]
	v.Role = map[bool]string{true: "argument", false: "option"}[v.asArg]
	v.Decl = []string{"struct", "ptr", "short", "short-ptr"}[v.declIdx]
	v.Default = nil
	for _, d := range v.def {
		v.Default = append(v.Default, fmt.Sprint(d))
	}
	v.EnvVars = nil
	for i, n := range v.envName {
		if v.envVal[i] == vUnset {
			v.EnvVars = append(v.EnvVars, n+" (unset)")
		} else {
			v.EnvVars = append(v.EnvVars, n+"="+v.envVal[i])
		}
	}
	v.Argv = nil
	if v.asArg {
		if len(v.Cli) > 0 {
			v.Argv = append([]string{"--"}, v.Cli...)
		}
	} else {
		for i, t := range v.Cli {
			// every documented spelling that can carry the token: --xx=tok, -x=tok, -xtok (not for flags, token not
			// starting with '='), --xx tok / -x tok (not for flags; token non-empty... or empty, and not dash-prefixed)
			form := (len(t) + i + v.formSalt) % 5
			sep := v.kind != kBool && !strings.HasPrefix(t, "-")
			att := v.kind != kBool && t != "" && !strings.HasPrefix(t, "=")
			switch {
			case t == "":
				v.Argv = append(v.Argv, "--xx", "")
			case form == 1:
				v.Argv = append(v.Argv, "-x="+t)
			case form == 2 && att:
				v.Argv = append(v.Argv, "-x"+t)
			case form == 3 && sep:
				v.Argv = append(v.Argv, "--xx", t)
			case form == 4 && sep:
				v.Argv = append(v.Argv, "-x", t)
			default:
				v.Argv = append(v.Argv, "--xx="+t)
			}
		}
		if v.Tail {
			v.Argv = append(v.Argv, "tail-1")
		}
		if v.After {
			v.Argv = append([]string{"tail-1"}, v.Argv...)
		}
	}
}

// expectation per DESIGN 3.7
type vexp struct {
	vals        []interface{}
	reject      bool   // a command-line value does not convert: usage error
	src         string // cli | env | default
	anyValid    bool   // some listed variable is non-empty and valid
	anyNonEmpty bool
}

func (v *vcase) expect() vexp {
	e := vexp{src: "default", vals: v.def}
	for i := range v.envName {
		val := v.envVal[i]
		if val == vUnset || val == "" {
			continue
		}
		e.anyNonEmpty = true
		if !v.kind.multi() {
			if x, ok := v.kind.parse(val); ok {
				if !e.anyValid {
					e.vals, e.src = []interface{}{x}, "env"
				}
				e.anyValid = true
			}
			continue
		}
		var xs []interface{}
		allok := true
		for _, part := range strings.Split(val, ",") {
			x, ok := v.kind.parse(strings.TrimSpace(part))
			if !ok {
				allok = false
				break
			}
			xs = append(xs, x)
		}
		if allok {
			if !e.anyValid {
				e.vals, e.src = xs, "env"
			}
			e.anyValid = true
		}
	}
	if len(v.Cli) > 0 {
		e.src = "cli"
		e.vals = nil
		for _, t := range v.Cli {
			x, ok := v.kind.parse(t)
			if !ok {
				e.reject = true
			}
			e.vals = append(e.vals, x)
		}
		if !v.kind.multi() {
			e.vals = e.vals[len(e.vals)-1:]
		}
	}
	return e
}

type vobs struct {
	ran    bool
	err    error
	got    []interface{}
	sbu    bool
	hasSBU bool
	pan    interface{}
	stderr string
}

// run declares the variable with the real library and runs it (light-weight: ContinueOnError, nothing can exit)
func (v *vcase) run() (o vobs) {
	for i, n := range v.envName {
		if v.envVal[i] == vUnset {
			os.Unsetenv(n)
		} else {
			os.Setenv(n, v.envVal[i])
		}
	}
	defer func() {
		for _, n := range v.envName {
			os.Unsetenv(n)
		}
	}()
	var buf strings.Builder
	cli.VerifSetStdErr(&buf)
	defer func() {
		o.stderr = buf.String()
		if r := recover(); r != nil {
			o.pan = r
		}
	}()
	// variables that merely carry the parameter's own name are no source of values (the environment is read when the parameter is declared)
	for _, n := range []string{"X", "x", "xx", "XX", "TAIL"} {
		os.Setenv(n, vPlain[v.kind][0])
		defer os.Unsetenv(n)
	}
	app := cli.App("app", "")
	app.ErrorHandling = flag.ContinueOnError
	env := strings.Join(v.envName, []string{" ", " ", "  ", "\t", "\n", " \t "}[v.formSalt%6]) // "space separated": any run of white space
	name := "x xx"
	if v.asArg {
		name = "X"
	}
	var get func() []interface{}
	sbu := new(bool)
	o.hasSBU = v.declIdx < 2
	list := func(n int, at func(i int) interface{}) []interface{} {
		var r []interface{}
		for i := 0; i < n; i++ {
			r = append(r, at(i))
		}
		return r
	}
	switch v.kind {
	case kBool:
		d := v.def[0].(bool)
		p := new(bool)
		*p = true // what the variable held before the declaration must not matter
		switch {
		case v.asArg && v.declIdx == 0:
			p = app.Bool(cli.BoolArg{Name: name, Value: d, EnvVar: env, SetByUser: sbu, HideValue: v.Hide})
		case v.asArg && v.declIdx == 1:
			app.BoolPtr(p, cli.BoolArg{Name: name, Value: d, EnvVar: env, SetByUser: sbu, HideValue: v.Hide})
		case v.asArg && v.declIdx == 3:
			app.BoolArgPtr(p, name, d, "")
		case v.asArg:
			p = app.BoolArg(name, d, "")
		case v.declIdx == 0:
			p = app.Bool(cli.BoolOpt{Name: name, Value: d, EnvVar: env, SetByUser: sbu, HideValue: v.Hide})
		case v.declIdx == 1:
			app.BoolPtr(p, cli.BoolOpt{Name: name, Value: d, EnvVar: env, SetByUser: sbu, HideValue: v.Hide})
		case v.declIdx == 3:
			app.BoolOptPtr(p, name, d, "")
		default:
			p = app.BoolOpt(name, d, "")
		}
		get = func() []interface{} { return []interface{}{*p} }
	case kString:
		d := v.def[0].(string)
		p := new(string)
		*p = "stale" // what the variable held before the declaration must not matter
		switch {
		case v.asArg && v.declIdx == 0:
			p = app.String(cli.StringArg{Name: name, Value: d, EnvVar: env, SetByUser: sbu, HideValue: v.Hide})
		case v.asArg && v.declIdx == 1:
			app.StringPtr(p, cli.StringArg{Name: name, Value: d, EnvVar: env, SetByUser: sbu, HideValue: v.Hide})
		case v.asArg && v.declIdx == 3:
			app.StringArgPtr(p, name, d, "")
		case v.asArg:
			p = app.StringArg(name, d, "")
		case v.declIdx == 0:
			p = app.String(cli.StringOpt{Name: name, Value: d, EnvVar: env, SetByUser: sbu, HideValue: v.Hide})
		case v.declIdx == 1:
			app.StringPtr(p, cli.StringOpt{Name: name, Value: d, EnvVar: env, SetByUser: sbu, HideValue: v.Hide})
		case v.declIdx == 3:
			app.StringOptPtr(p, name, d, "")
		default:
			p = app.StringOpt(name, d, "")
		}
		get = func() []interface{} { return []interface{}{*p} }
	case kInt:
		d := v.def[0].(int)
		p := new(int)
		*p = -77 // what the variable held before the declaration must not matter
		switch {
		case v.asArg && v.declIdx == 0:
			p = app.Int(cli.IntArg{Name: name, Value: d, EnvVar: env, SetByUser: sbu, HideValue: v.Hide})
		case v.asArg && v.declIdx == 1:
			app.IntPtr(p, cli.IntArg{Name: name, Value: d, EnvVar: env, SetByUser: sbu, HideValue: v.Hide})
		case v.asArg && v.declIdx == 3:
			app.IntArgPtr(p, name, d, "")
		case v.asArg:
			p = app.IntArg(name, d, "")
		case v.declIdx == 0:
			p = app.Int(cli.IntOpt{Name: name, Value: d, EnvVar: env, SetByUser: sbu, HideValue: v.Hide})
		case v.declIdx == 1:
			app.IntPtr(p, cli.IntOpt{Name: name, Value: d, EnvVar: env, SetByUser: sbu, HideValue: v.Hide})
		case v.declIdx == 3:
			app.IntOptPtr(p, name, d, "")
		default:
			p = app.IntOpt(name, d, "")
		}
		get = func() []interface{} { return []interface{}{*p} }
	case kFloat:
		d := v.def[0].(float64)
		p := new(float64)
		*p = -7.5 // what the variable held before the declaration must not matter
		switch {
		case v.asArg && v.declIdx == 0:
			p = app.Float64(cli.Float64Arg{Name: name, Value: d, EnvVar: env, SetByUser: sbu, HideValue: v.Hide})
		case v.asArg && v.declIdx == 1:
			app.Float64Ptr(p, cli.Float64Arg{Name: name, Value: d, EnvVar: env, SetByUser: sbu, HideValue: v.Hide})
		case v.asArg && v.declIdx == 3:
			app.Float64ArgPtr(p, name, d, "")
		case v.asArg:
			p = app.Float64Arg(name, d, "")
		case v.declIdx == 0:
			p = app.Float64(cli.Float64Opt{Name: name, Value: d, EnvVar: env, SetByUser: sbu, HideValue: v.Hide})
		case v.declIdx == 1:
			app.Float64Ptr(p, cli.Float64Opt{Name: name, Value: d, EnvVar: env, SetByUser: sbu, HideValue: v.Hide})
		case v.declIdx == 3:
			app.Float64OptPtr(p, name, d, "")
		default:
			p = app.Float64Opt(name, d, "")
		}
		get = func() []interface{} { return []interface{}{*p} }
	case kStrings:
		if v.dS == nil && len(v.def) > 0 {
			for _, x := range v.def {
				v.dS = append(v.dS, x.(string))
			}
		}
		d := v.dS // the same slice object on every run of this case: the caller's default
		p := new([]string)
		*p = []string{"stale", "values"} // what the variable held before the declaration must not matter
		switch {
		case v.asArg && v.declIdx == 0:
			p = app.Strings(cli.StringsArg{Name: name, Value: d, EnvVar: env, SetByUser: sbu, HideValue: v.Hide})
		case v.asArg && v.declIdx == 1:
			app.StringsPtr(p, cli.StringsArg{Name: name, Value: d, EnvVar: env, SetByUser: sbu, HideValue: v.Hide})
		case v.asArg && v.declIdx == 3:
			app.StringsArgPtr(p, name, d, "")
		case v.asArg:
			p = app.StringsArg(name, d, "")
		case v.declIdx == 0:
			p = app.Strings(cli.StringsOpt{Name: name, Value: d, EnvVar: env, SetByUser: sbu, HideValue: v.Hide})
		case v.declIdx == 1:
			app.StringsPtr(p, cli.StringsOpt{Name: name, Value: d, EnvVar: env, SetByUser: sbu, HideValue: v.Hide})
		case v.declIdx == 3:
			app.StringsOptPtr(p, name, d, "")
		default:
			p = app.StringsOpt(name, d, "")
		}
		get = func() []interface{} { return list(len(*p), func(i int) interface{} { return (*p)[i] }) }
	case kInts:
		if v.dI == nil && len(v.def) > 0 {
			for _, x := range v.def {
				v.dI = append(v.dI, x.(int))
			}
		}
		d := v.dI
		p := new([]int)
		*p = []int{-77, -78} // what the variable held before the declaration must not matter
		switch {
		case v.asArg && v.declIdx == 0:
			p = app.Ints(cli.IntsArg{Name: name, Value: d, EnvVar: env, SetByUser: sbu, HideValue: v.Hide})
		case v.asArg && v.declIdx == 1:
			app.IntsPtr(p, cli.IntsArg{Name: name, Value: d, EnvVar: env, SetByUser: sbu, HideValue: v.Hide})
		case v.asArg && v.declIdx == 3:
			app.IntsArgPtr(p, name, d, "")
		case v.asArg:
			p = app.IntsArg(name, d, "")
		case v.declIdx == 0:
			p = app.Ints(cli.IntsOpt{Name: name, Value: d, EnvVar: env, SetByUser: sbu, HideValue: v.Hide})
		case v.declIdx == 1:
			app.IntsPtr(p, cli.IntsOpt{Name: name, Value: d, EnvVar: env, SetByUser: sbu, HideValue: v.Hide})
		case v.declIdx == 3:
			app.IntsOptPtr(p, name, d, "")
		default:
			p = app.IntsOpt(name, d, "")
		}
		get = func() []interface{} { return list(len(*p), func(i int) interface{} { return (*p)[i] }) }
	case kFloats:
		if v.dF == nil && len(v.def) > 0 {
			for _, x := range v.def {
				v.dF = append(v.dF, x.(float64))
			}
		}
		d := v.dF
		p := new([]float64)
		*p = []float64{-7.5} // what the variable held before the declaration must not matter
		switch {
		case v.asArg && v.declIdx == 0:
			p = app.Floats64(cli.Floats64Arg{Name: name, Value: d, EnvVar: env, SetByUser: sbu, HideValue: v.Hide})
		case v.asArg && v.declIdx == 1:
			app.Floats64Ptr(p, cli.Floats64Arg{Name: name, Value: d, EnvVar: env, SetByUser: sbu, HideValue: v.Hide})
		case v.asArg && v.declIdx == 3:
			app.Floats64ArgPtr(p, name, d, "")
		case v.asArg:
			p = app.Floats64Arg(name, d, "")
		case v.declIdx == 0:
			p = app.Floats64(cli.Floats64Opt{Name: name, Value: d, EnvVar: env, SetByUser: sbu, HideValue: v.Hide})
		case v.declIdx == 1:
			app.Floats64Ptr(p, cli.Floats64Opt{Name: name, Value: d, EnvVar: env, SetByUser: sbu, HideValue: v.Hide})
		case v.declIdx == 3:
			app.Floats64OptPtr(p, name, d, "")
		default:
			p = app.Floats64Opt(name, d, "")
		}
		get = func() []interface{} { return list(len(*p), func(i int) interface{} { return (*p)[i] }) }
	}
	switch {
	case v.asArg:
		app.Spec = "[-- X...]"
	case v.Tail:
		app.StringsArg("TAIL", nil, "")
		app.Spec = "[OPTIONS] [TAIL...]"
	case v.After:
		// (with a value from the environment the option is already satisfied in front of TAIL: what the command line
		// gives behind it counts all the same)
		app.StringArg("TAIL", "", "")
		app.Spec = "[OPTIONS] TAIL [OPTIONS]"
	default:
		app.Spec = "[--xx...]"
	}
	app.Action = func() { o.ran = true; o.got = get(); o.sbu = *sbu }
	if v.kind.multi() && len(v.Cli) > 0 && v.formSalt%2 == 0 {
		// the same application object first parses another command line: what that run stored in the list is replaced,
		// not extended, by the run that is judged
		pre := map[vkind]string{kStrings: "pre", kInts: "9", kFloats: "9.5"}[v.kind]
		first := []string{"app", "--xx=" + pre}
		if v.asArg {
			first = []string{"app", "--", pre}
		} else if v.Tail {
			first = append(first, "tail-0")
		} else if v.After {
			first = []string{"app", "tail-0", "--xx=" + pre}
		}
		app.Run(first)
		o.ran, o.got, o.sbu = false, nil, false
		*sbu = false // (the flag is the caller's variable: a fresh invocation starts from false)
	}
	o.err = app.Run(append([]string{"app"}, v.Argv...))
	return o
}

// genValueCase draws a case; wide selects the edge-case token pool (C13) instead of mostly valid tokens (C06/C15)
func genValueCase(r *rand.Rand, wide bool) *vcase {
	v := &vcase{kind: vkind(r.Intn(7)), asArg: r.Intn(2) == 0}
	pool := vPlain[v.kind]
	tok := func() string {
		if wide || r.Intn(6) == 0 {
			return vTokens[r.Intn(len(vTokens))]
		}
		return pool[r.Intn(len(pool))]
	}
	nd := 1
	if v.kind.multi() {
		nd = r.Intn(3)
	}
	for guard := 0; len(v.def) < nd && guard < 200; guard++ {
		if x, ok := v.kind.parse(tok()); ok {
			v.def = append(v.def, x)
		}
	}
	for len(v.def) < nd {
		x, _ := v.kind.parse(pool[0])
		v.def = append(v.def, x)
	}
	v.Hide = r.Intn(5) == 0
	v.Tail = !v.asArg && r.Intn(4) == 0
	v.After = !v.asArg && !v.Tail && r.Intn(4) == 0
	nenv := r.Intn(4)
	envStyle := []string{"VPT_%d", "VPT_%d", "vpt_%d", "Vpt_miXed_%d"}[r.Intn(4)] // names are case-sensitive and used as written
	for e := 0; e < nenv; e++ {
		v.envName = append(v.envName, fmt.Sprintf(envStyle, e))
		var val string
		switch r.Intn(5) {
		case 0:
			val = vUnset
		case 1:
			val = ""
		default:
			if v.kind.multi() {
				cnt := 1 + r.Intn(3)
				if r.Intn(25) == 0 {
					cnt = 60 + r.Intn(15) // a long list (more than 64 elements)
				}
				var ps []string
				for k := 0; k < cnt; k++ {
					t := tok()
					if r.Intn(3) == 0 {
						t = " " + t + " "
					}
					ps = append(ps, t)
				}
				val = strings.Join(ps, ",")
				if r.Intn(10) == 0 {
					val = tok() + []string{":", ";", ";", "|", "\t"}[r.Intn(5)] + tok() // the comma is the only list separator
					if r.Intn(2) == 0 {
						val += "," + tok()
					}
				} else if r.Intn(12) == 0 {
					val = "[" + val + "]" // brackets are characters like any other
				}
			} else {
				val = tok()
			}
		}
		if strings.Contains(val, "\x00") {
			val = "nul"
		}
		v.envVal = append(v.envVal, val)
	}
	if r.Intn(5) == 0 && nenv > 0 {
		// irregular blanks in the list of variable names are part of the documented format ("space separated")
		v.envName[0] = v.envName[0] + " "
		v.envName[0] = strings.TrimSpace(v.envName[0])
	}
	ncli := r.Intn(4)
	if r.Intn(3) == 0 {
		ncli = 0
	} else if r.Intn(20) == 0 {
		ncli = 8 + r.Intn(6) // many occurrences
	}
	for k := 0; k < ncli; k++ {
		t := tok()
		if v.kind == kBool && !v.asArg && t == "" {
			t = "true" // an empty value cannot be delivered to a flag
		}
		v.Cli = append(v.Cli, t)
	}
	v.formSalt = r.Intn(5)
	v.declIdx = r.Intn(4)
	if v.declIdx >= 2 {
		// the short declaration forms take no environment list
		v.envName, v.envVal = nil, nil
	}
	v.finish()
	return v
}

func vstr(l []interface{}) string {
	var ps []string
	for _, x := range l {
		ps = append(ps, fmt.Sprintf("%#v", x))
	}
	return "[" + strings.Join(ps, " ") + "]"
}

// judgeValue compares an observation with the expectation; what selects the clauses judged ("value", "setbyuser", "strconv")
func judgeValue(c *core.Ctx, v *vcase, e vexp, o vobs, what string) bool {
	if o.pan != nil {
		c.Violation(fmt.Sprintf("panic: %v", o.pan), nil, nil)
		return false
	}
	if e.reject {
		if o.ran || o.err == nil {
			c.Violation(fmt.Sprintf("a command-line value that strconv rejects was accepted: ran=%v err=%v value=%s", o.ran, o.err, vstr(o.got)), nil, nil)
			return false
		}
		if !strings.Contains(o.stderr, "Usage: app") || !hasErrorText(o.stderr) {
			c.Violation("an unparsable value did not produce a usage error on the error stream", map[string]interface{}{"stderr": truncateStr(o.stderr, 300)}, nil)
			return false
		}
		c.Inc("rejected_unparsable")
		return true
	}
	if !o.ran || o.err != nil {
		c.Violation(fmt.Sprintf("expected acceptance (every value converts); ran=%v err=%v", o.ran, o.err), nil, nil)
		return false
	}
	if what != "setbyuser" && !veqList(o.got, e.vals) {
		sig := map[string]string{
			"type":         v.Kind,
			"cli":          map[bool]string{true: "none", false: "some"}[len(v.Cli) == 0],
			"env_valid":    map[bool]string{true: "some", false: "none"}[e.anyValid],
			"env_nonempty": map[bool]string{true: "some", false: "none"}[e.anyNonEmpty],
			"default":      map[bool]string{true: "nonempty", false: "empty"}[len(v.def) > 0],
			"observed":     map[bool]string{true: "empty", false: "nonempty"}[len(o.got) == 0],
		}
		c.Violation(fmt.Sprintf("value from %s: expected %s, observed %s", e.src, vstr(e.vals), vstr(o.got)), nil, sig)
		return false
	}
	if what != "value" && o.hasSBU && o.sbu != (len(v.Cli) > 0) {
		c.Violation(fmt.Sprintf("SetByUser=%v although the command line supplied %d value(s) (value source: %s)", o.sbu, len(v.Cli), e.src), nil, nil)
		return false
	}
	return true
}

func init() {
	core.Register(&core.Check{
		ID:        "C06",
		Title:     "Value precedence: command line, then environment, then default",
		Technique: "runtime monitor reading every built-in variable inside the Action, judged by a value model (strconv + precedence rules) over generated declaration/environment/command-line combinations",
		Rule: "a case is (one of the seven built-in types, option or argument, declaration entry point struct/Ptr/short form, default (multi-valued: 0-2 elements), a list of 0-3 environment variables each unset / empty / valid / invalid " +
			"(multi-valued: comma lists with blanks and empty elements; `;`, `:`, `|` and tabs are no separators), 0-3 command-line values, options under `[--xx...]`, `[OPTIONS] [TAIL...]` or `[OPTIONS] TAIL [OPTIONS]` with the tokens behind the positional); tokens mostly valid, one in six from the edge-case pool. Oracle (DESIGN 3.7): command-line values if any (multi: exactly those, single: the last), " +
			"else the first listed variable that is non-empty and valid, else the default; floats compared bitwise. non-trivial = at least two of {default non-empty, some variable set, command-line value} present; distinct by the whole case.",
		Assumptions: []string{"strconv is the conversion oracle (C13 checks that agreement on its own)", "known finding D5 (invalid list in the environment wipes a non-empty Ints/Floats64 default) is matched by predicate, see KNOWN_FINDINGS.txt"},
		Cases:       tiered(100000, 3000000),
		Floor:       tiered(10000, 300000),
		Run:         func(c *core.Ctx) { runValue(c, false, "value") },
		Pinned: []func(c *core.Ctx){
			func(c *core.Ctx) {
				v := &vcase{kind: kInts, def: []interface{}{1, 2}, envName: []string{"VPT_0"}, envVal: []string{"xxx"}}
				v.finish()
				runValueCase(c, v, "value")
			},
			func(c *core.Ctx) {
				v := &vcase{kind: kFloats, asArg: true, def: []interface{}{1.5}, envName: []string{"VPT_0"}, envVal: []string{"1,zz"}, declIdx: 1}
				v.finish()
				runValueCase(c, v, "value")
			},
		},
	})
	core.Register(&core.Check{
		ID:        "C13",
		Title:     "Typed values agree with strconv; unparsable values are usage errors",
		Technique: "differential runtime monitor: the built-in typed variables of the real library vs Go's strconv on an edge-case token pool, delivered by command line and by environment",
		Rule: "tokens from a pool of ~120 edge cases (signs, leading zeros, hex/octal/binary prefixes, underscores, exponents, 64-bit and float overflow boundaries, inf/nan spellings, all ParseBool spellings and near misses, " +
			"blanks inside/around, empty string, non-ASCII digits, invalid UTF-8, 300-digit numbers) x the seven built-in types x option/argument x delivery (option: --name=tok, or --name tok for the empty token; argument: after --; " +
			"environment: raw for single-valued, list element for multi-valued). Oracle: accepted iff strconv accepts (ParseInt base 10/64, ParseFloat 64, ParseBool), bound value equal to the parse (floats bitwise), " +
			"string types byte for byte; an unparsable command-line token => usage error on the error stream and the Action does not run. Multi-valued environment cases use an empty default (D5 is C06's). " +
			"non-trivial = case delivering at least one pool token; distinct by the whole case.",
		Assumptions: []string{"strconv of the toolchain that builds the checker is the oracle"},
		Cases:       tiered(100000, 3000000),
		Floor:       tiered(10000, 300000),
		Run:         func(c *core.Ctx) { runValue(c, true, "strconv") },
	})
	core.Register(&core.Check{
		ID:        "C15",
		Title:     "SetByUser is true exactly for values given on the command line",
		Technique: "runtime monitor reading every SetByUser flag inside the Action, on single typed variables (all combinations of command line / environment / default) and on every level of random command trees",
		Rule: "family V: the cases of C06 (seven types, option/argument, struct and Ptr declarations, env list states, default, 0-3 command-line values): SetByUser == 'the command line supplied a value'. " +
			"family T: random command trees of C04 run in recording mode: inside the Action, for every command of the tree and every option/argument, SetByUser == 'that level's own tokens bound a value to it' " +
			"(levels not addressed: all false; env-backed options without occurrence: false). non-trivial = case where some variable has an environment value or default and/or a command-line value; distinct by the whole case.",
		Assumptions: []string{"the short declaration forms (IntOpt(name, value, desc) ...) have no SetByUser field and are judged for the value only"},
		Cases:       tiered(60000, 2000000),
		Floor:       tiered(6000, 200000),
		Run: func(c *core.Ctx) {
			if c.Index%3 == 2 {
				c15Tree(c)
			} else {
				runValue(c, false, "setbyuser")
			}
		},
	})
}

func runValue(c *core.Ctx, wide bool, what string) {
	v := genValueCase(c.R, wide)
	if what == "strconv" && v.kind.multi() {
		v.def = nil // D5 is reported by C06 only
		v.finish()
	}
	if what == "setbyuser" && v.declIdx >= 2 {
		v.declIdx = c.R.Intn(2)
		v.finish()
	}
	runValueCase(c, v, what)
}

func runValueCase(c *core.Ctx, v *vcase, what string) {
	c.Journal(v)
	e := v.expect()
	o := v.run()
	c.Eval()
	present := 0
	if len(v.def) > 0 {
		present++
	}
	if e.anyNonEmpty {
		present++
	}
	if len(v.Cli) > 0 {
		present++
	}
	if (what == "strconv" && (len(v.Cli) > 0 || e.anyNonEmpty)) || (what != "strconv" && present >= 2) || (what == "setbyuser" && present >= 1) {
		c.Nontrivial(fmt.Sprintf("%+v", *v))
	}
	if !judgeValue(c, v, e, o, what) {
		return
	}
	c.Inc("type_" + v.Kind)
	c.Inc("role_" + v.Role)
	if !e.reject {
		c.Inc("source_" + e.src)
		if what != "value" && o.hasSBU {
			c.Inc(fmt.Sprintf("setbyuser_%v", o.sbu))
		}
	}
	if e.anyNonEmpty && !e.anyValid {
		c.Inc("env_all_invalid")
	}
	// a second application declared with the very same default slice (as a package-level default would be) and given
	// nothing must still see the declared default: the first one must not have written into the caller's slice
	if what == "value" && v.kind.multi() && len(v.def) > 0 && !e.reject && (len(v.Cli) > 0 || e.src == "env") {
		v2 := *v
		v2.Cli = nil
		v2.envName, v2.envVal = nil, nil
		v2.finish()
		c.Journal(&v2)
		o2 := v2.run()
		c.Eval()
		if o2.pan != nil || !o2.ran || !veqList(o2.got, v.def) {
			c.Violation(fmt.Sprintf("a second application declared with the same default slice sees %s instead of the default %s (the first one was given values)", vstr(o2.got), vstr(v.def)), nil, nil)
			return
		}
		c.Inc("shared_default_slice_intact")
	}
	if c.WantSample() && present >= 2 && len(v.envName) >= 2 {
		c.Sample(v)
	}
}

// c15Tree: SetByUser flags of every level of a command tree, observed inside the Action
func c15Tree(c *core.Ctx) {
	root, _ := treeFor(c, "C15", 30, false)
	// some env-backed options: their value comes from the environment, never "by the user"
	var mark func(t *drive.Cmd)
	mark = func(t *drive.Cmd) {
		for _, o := range t.Prog.Opts {
			o.EnvSet = c.R.Intn(4) == 0
		}
		for _, k := range t.Kids {
			mark(k)
		}
	}
	mark(root)
	argv, _ := treeInvocation(c.R, root, false, 10)
	if hasHelp(argv) {
		return
	}
	d := treeDesc{Tree: treeStr(root), Argv: argv}
	c.Journal(d)
	o := drive.Run(&drive.App{Root: root, Policy: flag.ContinueOnError, SparseSetBy: c.Index%2 == 1}, argv)
	c.Eval()
	if o.Ran != 1 {
		c.Inc("T_not_run")
		return
	}
	c.Nontrivial("T", d.Tree, fmt.Sprintf("%q", argv))
	for tid, sb := range o.SetBy {
		b := o.Bind[tid]
		bound := map[string]bool{}
		for od, vs := range b.Opts {
			bound["opt:"+od.Names[0]] = len(vs) > 0
		}
		for ad, vs := range b.Args {
			bound["arg:"+ad.Name] = len(vs) > 0
		}
		for name, set := range sb {
			if o.NoSetBy[tid][name] {
				c.Inc("T_declared_without_flag")
				continue // declared without a SetByUser variable: nothing to look at, but its neighbours' flags must not suffer
			}
			if set != bound[name] {
				c.Violation(fmt.Sprintf("command id %d, %s: SetByUser=%v but the command line bound a value: %v", tid, name, set, bound[name]), nil, nil)
				return
			}
			if set {
				c.Inc("T_flags_true")
			} else {
				c.Inc("T_flags_false")
			}
		}
	}
	// the parse is over before the first interceptor runs: every Before / After hook on the path sees the same flags
	for ev, at := range o.SetByAt {
		for tid, sb := range at {
			for name, set := range sb {
				if set != o.SetBy[tid][name] {
					c.Violation(fmt.Sprintf("command id %d, %s: SetByUser=%v as seen from hook %s, %v inside the Action", tid, name, set, ev, o.SetBy[tid][name]), nil, nil)
					return
				}
			}
		}
		c.Inc("T_hook_observations")
	}
}
