package checks

import (
	"fmt"
	"strconv"
	"strings"

	"verif/core"
	"verif/drive"
	"verif/gen"
	. "verif/refsem"
)

func init() {
	core.Register(&core.Check{
		ID:        "C02",
		Title:     "Bound values are exactly a valid derivation of the command line",
		Technique: "runtime monitor with recording value types (every Set logged) + admission oracle: constrained reference search that must consume exactly the observed values; twin run with the built-in types",
		Rule: "same generator as C01, biased to ambiguous specs (repetitions on every second atom, few options, spec-level -- with dash-prefixed tails); only accepted command lines are judged; " +
			"non-trivial = accepted, >=2 bound values and a spec with >=2 operators; distinct by (decl, spec, argv). Oracle: the binding recorded inside the Action (per variable, the ordered list of Set arguments) " +
			"must be admitted by the reference (some derivation consumes exactly these tokens for these variables, in order); for specs without -- the option part must equal the reader's occurrence list; " +
			"a twin run declaring the same program with the built-in Bool/String/Strings types must see the same values.",
		Assumptions: []string{
			"admission search of DESIGN.md 3.4 over the reference automaton; unclaimed zones as in C01 are skipped and counted",
			"recording types see command-line values only (environment values are Set at declaration time and the log is reset before Run)",
		},
		Cases: tiered(40000, 1500000),
		Floor: tiered(3000, 100000),
		Run:   runC02,
	})
}

func runC02(c *core.Ctx) {
	pi := c.Index / argvPerProg
	cfg := variantCfg(pi, c.Tier)
	if pi%2 == 0 {
		cfg.RepOneIn = 2
		cfg.MaxOpts = 3
	}
	if c.Tier == "thorough" && pi%5 == 0 {
		cfg.MaxRep = 10
	}
	p := progFor(c.Seed, "C02", pi, cfg)
	nfa := BuildNFA(p, false)
	argv := gen.Argv(c.R, p, cfg)
	if c.R.Intn(6) == 0 {
		// a sentence of another spec over the same declarations: a near miss
		argv = gen.Argv(c.R, gen.AltProg(c.R, p, cfg), cfg)
		c.Inc("foreign_sentences")
	}
	if hasHelp(argv) {
		return
	}
	d := descOf(p, argv)
	c.Journal(d)
	obs := runOnceOrTwice(c, p, argv, cfg)
	c.LibDone()
	c.Eval()
	if !obs.Accepted() {
		c.Inc("not_accepted")
		return
	}
	if FoldedEq(p, argv) {
		c.Inc("unclaimed")
		return
	}
	b := obs.Bind[0]
	_ = nfa
	adm, uncl := AdmitsEither(p, argv, b.Args, b.Opts)
	if !adm && uncl {
		c.Inc("unclaimed")
		return
	}
	nvals := 0
	for _, v := range b.Opts {
		nvals += len(v)
	}
	nargs := 0
	for _, v := range b.Args {
		nargs += len(v)
	}
	hist := map[string]int{}
	if opCount(p.AST, hist) >= 2 && nvals+nargs >= 2 {
		c.Nontrivial(d.Decl, d.Spec, fmt.Sprintf("%q", argv))
	}
	if !adm {
		c.Violation("the bound values are not a derivation of the command line", map[string]interface{}{"library_binding": bindStr(p, b)}, nil)
		return
	}
	c.Inc("admitted")
	c.Add("option_values_bound", nvals)
	c.Add("positionals_bound", nargs)
	hasDD := p.HasDD()
	// conservation + option part for --free specs: the reader's occurrences, per option, in order
	if !hasDD {
		items, stop := gen.ReadAll(p, argv)
		want := map[*OptDecl][]string{}
		npos := 0
		for _, it := range items {
			if it.Oc != nil {
				want[it.Oc.Opt] = append(want[it.Oc.Opt], it.Oc.Val)
			} else {
				npos++
			}
		}
		if stop < len(argv) && argv[stop] == "--" {
			npos += len(argv) - stop - 1
		} else if stop < len(argv) {
			c.Violation("accepted although the reader stops at a malformed option token", map[string]interface{}{"stopped_at": argv[stop]}, nil)
			return
		}
		for _, o := range p.Opts {
			if strings.Join(want[o], "\x00") != strings.Join(b.Opts[o], "\x00") || len(want[o]) != len(b.Opts[o]) {
				c.Violation(fmt.Sprintf("option %s: written %q, bound %q", o.Dashed()[0], want[o], b.Opts[o]), nil, nil)
				return
			}
		}
		if npos != nargs {
			c.Violation(fmt.Sprintf("%d positional tokens on the command line, %d bound", npos, nargs), nil, nil)
			return
		}
		c.Inc("option_part_equal")
	} else {
		c.Inc("with_spec_dd")
	}
	// twin run with the built-in types
	twinOK := true
	for o, vs := range b.Opts {
		if o.Flag {
			for _, v := range vs {
				if _, err := strconv.ParseBool(v); err != nil {
					twinOK = false
				}
			}
		}
	}
	if twinOK {
		app := drive.Single(p)
		app.Builtin = true
		c.Journal(CaseDesc{Decl: d.Decl, Spec: d.Spec, Argv: argv, Note: "twin run with built-in types"})
		o2 := drive.Run(app, argv)
		c.LibDone()
		c.Eval()
		if !o2.Accepted() {
			c.Violation(fmt.Sprintf("accepted with recording types, not with the built-in types (err=%v panic=%v)", o2.Err, o2.Pan), nil, nil)
			return
		}
		b2 := o2.Bind[0]
		for _, o := range p.Opts {
			want := b.Opts[o]
			if len(want) > 0 {
				switch {
				case o.Flag:
					bv, _ := strconv.ParseBool(want[len(want)-1])
					want = []string{fmt.Sprint(bv)}
				case !o.Multi:
					want = want[len(want)-1:]
				}
			}
			if fmt.Sprintf("%q", want) != fmt.Sprintf("%q", b2.Opts[o]) && !(len(want) == 0 && len(b2.Opts[o]) == 0) {
				c.Violation(fmt.Sprintf("option %s: recording type saw %q, built-in variable holds %q", o.Dashed()[0], b.Opts[o], b2.Opts[o]), nil, nil)
				return
			}
		}
		for _, a := range p.Args {
			if fmt.Sprintf("%q", b.Args[a]) != fmt.Sprintf("%q", b2.Args[a]) && !(len(b.Args[a]) == 0 && len(b2.Args[a]) == 0) {
				c.Violation(fmt.Sprintf("argument %s: recording type saw %q, built-in variable holds %q", a.Name, b.Args[a], b2.Args[a]), nil, nil)
				return
			}
		}
		// variables the command line did not mention hold their default (or their environment value)
		for _, o := range p.Opts {
			if len(b.Opts[o]) > 0 {
				continue
			}
			var want []string
			switch {
			case o.Flag:
				want = []string{fmt.Sprint(o.EnvSet)}
			case o.Multi && o.EnvSet:
				want = []string{drive.EnvValue(o)}
			case o.Multi:
				want = nil
			case o.EnvSet:
				want = []string{drive.EnvValue(o)}
			default:
				want = []string{""}
			}
			if got := o2.Values[0]["opt:"+o.Names[0]]; fmt.Sprintf("%q", got) != fmt.Sprintf("%q", want) && !(len(got) == 0 && len(want) == 0) {
				c.Violation(fmt.Sprintf("option %s is not on the command line but its variable holds %q (expected %q)", o.Dashed()[0], got, want), nil, nil)
				return
			}
		}
		for _, a := range p.Args {
			if len(b.Args[a]) == 0 && len(o2.Values[0]["arg:"+a.Name]) != 0 {
				c.Violation(fmt.Sprintf("argument %s received no token but its variable holds %q", a.Name, o2.Values[0]["arg:"+a.Name]), nil, nil)
				return
			}
		}
		c.Inc("twin_equal")
	}
	if c.WantSample() && nvals >= 1 && nargs >= 2 {
		d.Note = "bound: " + bindStr(p, b)
		c.Sample(d)
	}
}
