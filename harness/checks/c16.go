package checks

import (
	"fmt"
	"strings"

	"verif/core"
	"verif/drive"
	"verif/gen"
	. "verif/refsem"
)

func init() {
	core.Register(&core.Check{
		ID:        "C16",
		Title:     "A missing spec means `[OPTIONS] ARG1 ARG2 ...`",
		Technique: "metamorphic runtime monitor: twin real applications, one declared without a spec and one with the explicit spec, run on the same command lines; usage line read back from the rendered help",
		Rule: "random declaration sets (0-5 options of every kind, 0-3 arguments in random declaration order with names that are prefixes/suffixes of one another, some arguments backed by a set environment variable, arguments declared before or after the options, optionally a version flag as the only or an additional option); twin A has no spec, twin B the explicit '[OPTIONS] ARG1 ARG2 ...' ('[OPTIONS]' omitted without options); " +
			"command lines derived from that spec (all spellings, shuffled option runs) and mutated; the outcome (acceptance, every bound value) must be identical - also on a second Run of the same two application objects with another command line - and the usage line of both helps must read " +
			"'Usage: app <that spec>'. The reference verdict is also compared (as in C01). non-trivial = >=1 declared element and >=1 token; distinct by (decl, argv).",
		Assumptions: []string{"the usage line is the first line starting with 'Usage:' of the help printed for --help"},
		Cases:       tiered(30000, 1000000),
		Floor:       tiered(3000, 100000),
		Run:         runC16,
	})
}

func usageLine(stderr string) string {
	for _, l := range strings.Split(stderr, "\n") {
		if strings.HasPrefix(l, "Usage:") {
			return strings.TrimRight(l, " ")
		}
	}
	return ""
}

func runC16(c *core.Ctx) {
	pi := c.Index / 10
	r := progFor(c.Seed, "C16", pi, gen.Cfg{MaxOpts: 6}) // only the declarations are used
	p := &Prog{Opts: r.Opts, Args: append([]*ArgDecl{}, r.Args...)}
	c.R.Shuffle(len(p.Args), func(i, j int) { p.Args[i], p.Args[j] = p.Args[j], p.Args[i] })
	if pi%7 == 0 {
		p.Args = nil
	}
	if pi%9 == 4 {
		// many arguments
		for len(p.Args) < 5+pi%8 { // up to twelve arguments: usage lines well beyond 80 columns
			p.Args = append(p.Args, &ArgDecl{Name: "tmp", Multi: true})
		}
	}
	if pi%13 == 7 {
		// an option that can be written --help is an option like any other for the generated spec
		p.Opts = append(append([]*OptDecl{}, p.Opts...), &OptDecl{Names: []string{"x", "help"}, Flag: true})
	}
	for _, a := range p.Args {
		a.EnvSet = pi%3 == 0 && c.R.Intn(2) == 0 // a set environment variable must not change the generated spec
		a.Hide = c.R.Intn(4) == 0                // nor does HideValue: it is about the help only
		// nor the built-in integer type (its values are judged by C13, not here; one such argument at most, so that
		// which conversion error is reported first cannot depend on the iteration order of a map)
		a.BuiltinInt = a == p.Args[[]int{0, len(p.Args) - 1}[pi%2]] && c.R.Intn(4) == 0 // (first or last: a scalar among list-like ones)
		a.FlagLike = c.R.Intn(6) == 0                                                   // nor a bool-like value type
		a.Default = ""
		if c.R.Intn(4) == 0 {
			a.Default = "dflt" // nor a non-empty default
		}
	}
	// argument names: some are suffixes / prefixes of one another
	names := []string{"X", "Y", "Z_2", "FILE_", "A_", "OPTIONS_FILE", "OPTIONSX", "SRC", "SRC_FILE", "FILE", "C", "DST", "DST2", "S", "ARGUMENT_NUMBER_11", "ARGUMENT_NUMBER_12", "ARGUMENT_NUMBER_13"}
	c.R.Shuffle(len(names), func(i, j int) { names[i], names[j] = names[j], names[i] })
	for i, a := range p.Args {
		a.Name = names[i]
	}
	version := pi%5 == 1   // the application declares a version flag (an option like any other for the generated spec)
	argsFirst := pi%4 == 2 // arguments declared before the options
	model := p             // what the reference sees: the version flag is an option of the root
	if version {
		model = &Prog{Opts: append([]*OptDecl{{Names: []string{"V", "version"}, Flag: true}}, p.Opts...), Args: p.Args}
	}
	explModel := gen.ImplicitProg(model)
	envOnly := pi%11 == 5 // both twins also declare an option that has no name at all: it still counts for [OPTIONS]
	if envOnly && len(model.Opts) == 0 {
		q := *model
		sq := &Node{K: KSeq, Kids: []*Node{{K: KOptional, Kids: []*Node{{K: KAllOpts}}}}}
		for _, a := range model.Args {
			sq.Kids = append(sq.Kids, &Node{K: KArg, Arg: a})
		}
		q.AST = sq
		q.Spec = sq.String()
		explModel = &q
	}
	expl := &Prog{Opts: p.Opts, Args: p.Args, Spec: explModel.Spec, AST: explModel.AST}
	argv := gen.Argv(c.R, explModel, gen.Cfg{})
	if hasHelp(argv) {
		return
	}
	withSub := pi%6 == 3 // the command also has a sub-command (never named on these command lines): the generated spec is the same
	single := func(q *Prog) *drive.App {
		a := drive.Single(q)
		a.Version, a.ArgsFirst = version, argsFirst
		a.Root.EnvOnlyOpt = envOnly
		if withSub && pi%12 == 9 {
			a.Root.Action = drive.Beh{Kind: drive.BehAbsent} // a dispatch-only parent: its own arguments are validated all the same
		}
		if withSub {
			a.Root.Kids = []*drive.Cmd{{ID: 1, Aliases: []string{"zz-sub-command"}, Prog: &Prog{}, Parent: a.Root, Action: drive.Beh{Kind: drive.BehReturn}}}
		}
		return a
	}
	versionRequest := version && len(argv) > 0 && (argv[0] == "-V" || argv[0] == "--version")
	d := descOf(expl, argv)
	d.Note = fmt.Sprintf("twin without spec vs explicit spec (version flag declared: %v, arguments declared first: %v, with a sub-command: %v)", version, argsFirst, withSub)
	if withSub {
		c.Inc("twins_with_a_subcommand")
	}
	c.Journal(d)
	oa := drive.Run(single(p), argv)
	ob := drive.Run(single(expl), argv)
	c.LibDone()
	c.Eval()
	ka, kb := drive.OutcomeKey(p, oa), drive.OutcomeKey(p, ob)
	if len(p.Opts)+len(p.Args) >= 1 && len(argv) >= 1 {
		c.Nontrivial(d.Decl, fmt.Sprintf("%q", argv))
	}
	if ka != kb {
		c.Violation("the command without spec and its twin with the explicit spec differ", map[string]interface{}{"no_spec": ka, "explicit": kb}, nil)
		return
	}
	if oa.Stderr != ob.Stderr || oa.Stdout != ob.Stdout {
		// same name, same declarations, same (generated / written) spec text: whatever is printed is printed by both alike
		c.Violation("the command without spec and its twin with the explicit spec print different texts", map[string]interface{}{"no_spec": truncateStr(oa.Stderr, 400), "explicit": truncateStr(ob.Stderr, 400)}, nil)
		return
	}
	if oa.Stderr != "" {
		c.Inc("printed_texts_equal")
	}
	for _, a := range p.Args {
		if a.BuiltinInt {
			versionRequest = true // (no comparison with the reference: a token may be refused for not being a number)
		}
	}
	noAction := withSub && pi%12 == 9 // (nothing "runs" then: the twins are compared with each other only)
	if !FoldedEq(explModel, argv) && !versionRequest && !noAction {
		if v, _ := decideBoth(explModel, BuildNFA(explModel, false), BuildNFA(explModel, true), argv); !v.Unclaimed && v.Accept != oa.Accepted() {
			c.Violation(fmt.Sprintf("reference accept=%v for the implicit spec, library accept=%v", v.Accept, oa.Accepted()), nil, nil)
			return
		}
	}
	if strings.HasPrefix(ka, "ACCEPT") {
		c.Inc("accepted_pairs")
	} else {
		c.Inc("rejected_pairs")
	}
	if c.Index%4 == 1 {
		// the same two application objects run twice: the generated spec must not drift from one Run to the next
		argv2 := gen.Argv(c.R, explModel, gen.Cfg{})
		if !hasHelp(argv2) {
			drive.Quiet()
			c.Journal(CaseDesc{Decl: d.Decl, Spec: expl.Spec, Argv: argv2, Note: fmt.Sprintf("second Run on the same application objects, after %q", argv)})
			ba, bb := drive.Build(single(p)), drive.Build(single(expl))
			a1, b1 := drive.OutcomeKey(p, ba.Run(argv)), drive.OutcomeKey(p, bb.Run(argv))
			a2, b2 := drive.OutcomeKey(p, ba.Run(argv2)), drive.OutcomeKey(p, bb.Run(argv2))
			c.LibDone()
			c.Eval()
			if a1 != b1 || a2 != b2 {
				c.Violation("run twice on the same objects, the command without spec and its explicit twin differ", map[string]interface{}{"first_no_spec": a1, "first_explicit": b1, "second_argv": argv2, "second_no_spec": a2, "second_explicit": b2}, nil)
				return
			}
			c.Inc("second_runs_equal")
		}
	}
	if c.Index%10 == 0 || (len(p.Args) > 4 && c.Index%2 == 0) {
		c.Journal(CaseDesc{Decl: d.Decl, Spec: expl.Spec, Argv: []string{"--help"}, Note: "usage line of both twins"})
		ha := usageLine(drive.Run(single(p), []string{"--help"}).Stderr)
		hb := usageLine(drive.Run(single(expl), []string{"--help"}).Stderr)
		want := strings.TrimRight("Usage: app "+expl.Spec, " ")
		if withSub {
			want += " COMMAND [arg...]"
		}
		c.LibDone()
		c.Eval()
		if ha != want || hb != want {
			c.Violation(fmt.Sprintf("usage line: want %q, no-spec twin %q, explicit twin %q", want, ha, hb), nil, nil)
			return
		}
		c.Inc("usage_lines_equal")
	}
	if c.WantSample() && len(argv) >= 3 && len(p.Args) >= 2 {
		d.Note = ka
		c.Sample(d)
	}
}
