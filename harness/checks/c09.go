package checks

import (
	"fmt"
	"strings"

	"verif/core"
	"verif/drive"
	"verif/gen"
	. "verif/refsem"
)

func init() {
	core.Register(&core.Check{
		ID:        "C09",
		Title:     "`--` ends option parsing; what follows is positional, verbatim",
		Technique: "metamorphic runtime monitor (the same real application run with and without an inserted --) plus reference-judged runs of specs containing -- with hostile tails",
		Rule: "family T (transparency): --free specs without env-backed options, command lines the reader reads to the end; a -- is inserted at one random point of the trailing block of non-dash positionals and at its very end " +
			"(thorough: at every point) and the outcome (acceptance and every bound value) must not change. family S (spec-level --): a generated head spec followed by '-- X...', '[-- X...]', '-- X [Y...]' etc.; " +
			"command line = head sentence (possibly mutated) ++ tail of arbitrary tokens (dash-prefixed, -, undeclared and declared option spellings, further --); both 'head tail' and 'head -- tail' are judged by the reference " +
			"(acceptance, admission of the binding: verbatim, a first command-line -- bound to nothing, later ones verbatim) and, where the reference admits exactly one binding for each, must be equal. " +
			"family V (verbatim): --free specs ending in a repeated argument, sentence ++ -- ++ hostile tail. non-trivial = at least one -- involved and >=2 tokens; distinct by (decl, spec, argv, insertion point).",
		Assumptions: []string{
			"reading of command lines per DESIGN.md 3.2; for family S the unclaimed zones of C01 (zone 4) are skipped and counted",
			"equality of 'head tail' and 'head -- tail' is only demanded where the reference admits one and the same single binding for both (otherwise the derivations, and where the spec-level -- falls in them, may legitimately differ)",
		},
		Cases: tiered(40000, 1500000),
		Floor: tiered(4000, 150000),
		Run:   runC09,
	})
}

var c09Tail = []string{"-z", "--zz", "-a", "--aa", "-o", "v", "x", "-", "--", "--out=v", "-o=v", "-ab", "---", "", "-1", "p", "q", "--zz=v", "-é", "é", "--", "+x", "-%", "%s", "-5", "--=", "-\t",
	"-a-token-longer-than-sixty-four-bytes-0123456789-0123456789-0123456789-0123456789"}

// c09Long: very long lines of positionals (around the 1024-token mark): inserting -- at the start, in the middle or at the
// very end must not change anything
func c09Long(c *core.Ctx) {
	x := &ArgDecl{Name: "X", Multi: true}
	a := &OptDecl{Names: []string{"a"}, Flag: true}
	p := &Prog{Opts: []*OptDecl{a}, Args: []*ArgDecl{x}}
	p.AST = &Node{K: KSeq, Kids: []*Node{{K: KOptional, Kids: []*Node{{K: KOpt, Opt: a, Name: "-a"}}}, {K: KRep, Kids: []*Node{{K: KArg, Arg: x}}}}}
	p.Spec = p.AST.String()
	n := []int{1000, 1023, 1024, 1025, 1100}[c.R.Intn(5)]
	argv := make([]string, 0, n+2)
	if c.R.Intn(2) == 0 {
		argv = append(argv, "-a")
	}
	for i := 0; i < n; i++ {
		argv = append(argv, "w")
	}
	app := drive.Single(p)
	c.Journal(CaseDesc{Decl: DeclStr(p), Spec: p.Spec, Note: fmt.Sprintf("%d positional tokens", n)})
	base := drive.OutcomeKey(p, drive.Run(app, argv))
	c.LibDone()
	c.Eval()
	for _, ins := range []int{len(argv) - n, len(argv) - n/2, len(argv)} {
		a2 := append(append(append([]string{}, argv[:ins]...), "--"), argv[ins:]...)
		c.Journal(CaseDesc{Decl: DeclStr(p), Spec: p.Spec, Note: fmt.Sprintf("%d positional tokens, -- inserted at %d", n, ins)})
		got := drive.OutcomeKey(p, drive.Run(app, a2))
		c.LibDone()
		c.Eval()
		c.Nontrivial("L", fmt.Sprint(n, ins, len(argv)))
		if got != base {
			c.Violation(fmt.Sprintf("a line of %d positionals: inserting -- at %d changed the outcome", n, ins), map[string]interface{}{"without": truncateStr(base, 200), "with": truncateStr(got, 200)}, nil)
			return
		}
		c.Inc("L_long_line_pairs")
	}
}

func runC09(c *core.Ctx) {
	if c.Index%2000 == 1999 {
		c09Long(c)
		return
	}
	switch c.Index % 4 {
	case 0, 1:
		c09Transparency(c)
	case 2:
		c09SpecLevel(c)
	default:
		c09Verbatim(c)
	}
}

func c09Transparency(c *core.Ctx) {
	pi := c.Index / argvPerProg
	cfg := gen.Cfg{}
	p := progFor(c.Seed, "C09T", pi, cfg)
	argv := gen.Argv(c.R, p, cfg)
	if hasHelp(argv) || FoldedEq(p, argv) {
		c.Inc("T_skipped")
		return
	}
	items, stop := gen.ReadAll(p, argv)
	nt := 0
	if stop != len(argv) {
		// the reader gives up on an option-like token (undeclared, malformed, value missing). Such a line is rejected;
		// a -- appended at its very end leaves the offending token in front of it and must not rescue the line (in
		// particular it is never taken as the missing value of an option). Lines that already hold a -- are left alone.
		for _, t := range argv {
			if t == "--" {
				c.Inc("T_skipped_not_read_to_end")
				return
			}
		}
		c.Inc("T_unreadable_lines")
	} else {
		for k := len(items) - 1; k >= 0 && items[k].Oc == nil && !strings.HasPrefix(items[k].Pos, "-"); k-- {
			nt++
		}
	}
	app := drive.Single(p)
	c.Journal(descOf(p, argv))
	base := drive.OutcomeKey(p, drive.Run(app, argv))
	c.LibDone()
	c.Eval()
	points := []int{len(argv)}
	if c.Tier == "thorough" {
		for i := len(argv) - nt; i < len(argv); i++ {
			points = append(points, i)
		}
	} else if nt > 0 {
		points = append(points, len(argv)-1-c.R.Intn(nt))
	}
	for _, ins := range points {
		a2 := append(append(append([]string{}, argv[:ins]...), "--"), argv[ins:]...)
		d := descOf(p, a2)
		d.Note = fmt.Sprintf("-- inserted at %d of %d (trailing block of %d)", ins, len(argv), nt)
		c.Journal(d)
		got := drive.OutcomeKey(p, drive.Run(app, a2))
		c.LibDone()
		c.Eval()
		if len(a2) >= 2 {
			c.Nontrivial("T", d.Decl, d.Spec, fmt.Sprintf("%q", a2))
		}
		if ins == len(argv) {
			c.Inc("T_inserted_at_end")
		} else {
			c.Inc("T_inserted_inside_block")
		}
		if got != base {
			c.Violation("inserting -- in the trailing block of positionals changed the outcome", map[string]interface{}{"without": base, "with": got, "argv_without": argv}, nil)
			return
		}
		if strings.HasPrefix(base, "ACCEPT") {
			c.Inc("T_accepted_pairs")
		} else {
			c.Inc("T_rejected_pairs")
		}
		if c.WantSample() && nt >= 2 && ins < len(argv) && strings.HasPrefix(base, "ACCEPT") {
			c.Sample(d)
		}
	}
}

// judge one run against the reference: acceptance and admission; returns the library outcome key and whether it was claimed
func c09Judge(c *core.Ctx, p *Prog, argv []string, fam string) (string, bool) {
	nfa, nfaR := BuildNFA(p, false), BuildNFA(p, true)
	c.Journal(descOf(p, argv))
	obs := drive.Run(drive.Single(p), argv)
	c.LibDone()
	c.Eval()
	key := drive.OutcomeKey(p, obs)
	if obs.SpecErr != nil || obs.Pan != nil || strings.HasPrefix(key, "INCONSISTENT") || obs.Exit != nil {
		c.Violation("undocumented outcome: "+key, nil, nil)
		return key, false
	}
	v, _ := decideBoth(p, nfa, nfaR, argv)
	if v.Unclaimed || FoldedEq(p, argv) {
		c.Inc(fam + "_unclaimed")
		return key, false
	}
	if v.Accept != obs.Accepted() {
		c.Violation(fmt.Sprintf("reference accept=%v, library accept=%v", v.Accept, obs.Accepted()), map[string]interface{}{"library": key}, nil)
		return key, false
	}
	if v.Accept {
		b := obs.Bind[0]
		adm, uncl := AdmitsEither(p, argv, b.Args, b.Opts)
		if !adm && !uncl {
			c.Violation("tokens after -- are not bound verbatim / the binding is not a derivation", map[string]interface{}{"library_binding": bindStr(p, b)}, nil)
			return key, false
		}
		c.Inc(fam + "_accepted")
	} else {
		c.Inc(fam + "_rejected")
	}
	return key, true
}

func c09SpecLevel(c *core.Ctx) {
	pi := c.Index / argvPerProg
	head := progFor(c.Seed, "C09S", pi, gen.Cfg{MaxOpts: 4})
	// full program: head followed by a spec-level -- and arguments
	full := *head
	x, y := head.Args[0], head.Args[len(head.Args)-1]
	var tailSpec *Node
	switch pi % 8 {
	case 6:
		// (X -- Y...) | (-- Y...): each alternative has a -- of its own (what the parser remembers about the first one
		// must not leak into the second)
		// (| binds tighter than juxtaposition: every alternative is a parenthesised group)
		tailSpec = &Node{K: KChoice, Kids: []*Node{
			{K: KGroup, Kids: []*Node{{K: KSeq, Kids: []*Node{{K: KArg, Arg: x}, {K: KDD}, {K: KRep, Kids: []*Node{{K: KArg, Arg: y}}}}}}},
			{K: KGroup, Kids: []*Node{{K: KSeq, Kids: []*Node{{K: KDD}, {K: KRep, Kids: []*Node{{K: KArg, Arg: y}}}}}}}}}
	case 7:
		// (-- X) | (Y -- X...)
		tailSpec = &Node{K: KChoice, Kids: []*Node{
			{K: KGroup, Kids: []*Node{{K: KSeq, Kids: []*Node{{K: KDD}, {K: KArg, Arg: x}}}}},
			{K: KGroup, Kids: []*Node{{K: KSeq, Kids: []*Node{{K: KArg, Arg: y}, {K: KDD}, {K: KRep, Kids: []*Node{{K: KArg, Arg: x}}}}}}}}}
	case 4:
		// (X | (-- Y)) X... : the spec-level -- sits in one branch of a choice that rejoins on a repeated argument
		tailSpec = &Node{K: KSeq, Kids: []*Node{{K: KChoice, Kids: []*Node{{K: KArg, Arg: x}, {K: KGroup, Kids: []*Node{{K: KSeq, Kids: []*Node{{K: KDD}, {K: KArg, Arg: y}}}}}}}, {K: KRep, Kids: []*Node{{K: KArg, Arg: x}}}}}
	case 5:
		// [-- Y] X...
		tailSpec = &Node{K: KSeq, Kids: []*Node{{K: KOptional, Kids: []*Node{{K: KSeq, Kids: []*Node{{K: KDD}, {K: KArg, Arg: y}}}}}, {K: KRep, Kids: []*Node{{K: KArg, Arg: x}}}}}
	case 0:
		tailSpec = &Node{K: KSeq, Kids: []*Node{{K: KDD}, {K: KRep, Kids: []*Node{{K: KArg, Arg: x}}}}}
	case 1:
		tailSpec = &Node{K: KOptional, Kids: []*Node{{K: KSeq, Kids: []*Node{{K: KDD}, {K: KRep, Kids: []*Node{{K: KArg, Arg: x}}}}}}}
	case 2:
		tailSpec = &Node{K: KSeq, Kids: []*Node{{K: KDD}, {K: KArg, Arg: x}, {K: KOptional, Kids: []*Node{{K: KRep, Kids: []*Node{{K: KArg, Arg: y}}}}}}}
	default:
		tailSpec = &Node{K: KSeq, Kids: []*Node{{K: KDD}, {K: KOptional, Kids: []*Node{{K: KRep, Kids: []*Node{{K: KArg, Arg: x}}}}}}}
	}
	full.AST = &Node{K: KSeq, Kids: []*Node{head.AST, tailSpec}}
	if len(head.AST.Kids) > 1 || head.AST.K != KSeq {
		full.AST = &Node{K: KSeq, Kids: append(append([]*Node{}, head.AST.Kids...), tailSpec)}
	}
	full.Spec = full.AST.String()
	hs := gen.Sentence(c.R, head, gen.Cfg{})
	if c.R.Intn(3) == 0 {
		hs = gen.Mutate(c.R, hs)
	}
	nt := c.R.Intn(5)
	if c.R.Intn(15) == 0 {
		nt = 9 + c.R.Intn(6) // a long tail
	}
	var tail []string
	for i := 0; i < nt; i++ {
		tail = append(tail, c09Tail[c.R.Intn(len(c09Tail))])
	}
	r1 := append(append([]string{}, hs...), tail...)
	r2 := append(append(append([]string{}, hs...), "--"), tail...)
	if hasHelp(r1) {
		return
	}
	k1, ok1 := c09Judge(c, &full, r1, "S")
	k2, ok2 := c09Judge(c, &full, r2, "S")
	d := descOf(&full, r2)
	if len(r2) >= 2 {
		c.Nontrivial("S", d.Decl, d.Spec, fmt.Sprintf("%q", r2))
	}
	for _, t := range tail {
		if strings.HasPrefix(t, "-") {
			c.Inc("S_dash_tail_tokens")
		}
	}
	if !ok1 || !ok2 || (len(tail) > 0 && tail[0] == "--") {
		return
	}
	a1, b1, u1 := Bindings(&full, r1)
	a2, b2, u2 := Bindings(&full, r2)
	if u1 || u2 || !a1 || !a2 || len(b1) != 1 || len(b2) != 1 || b1[0] != b2[0] {
		c.Inc("S_equality_not_demanded")
		return
	}
	if k1 != k2 {
		c.Violation("a -- in the spec does not act like a -- at that position of the command line", map[string]interface{}{"head_tail": r1, "outcome": k1, "head_dd_tail": r2, "outcome_dd": k2}, nil)
		return
	}
	c.Inc("S_equal_pairs")
	if c.WantSample() && len(tail) >= 2 {
		d.Note = "equal to the run without the command-line --"
		c.Sample(d)
	}
}

func c09Verbatim(c *core.Ctx) {
	pi := c.Index / argvPerProg
	p := progFor(c.Seed, "C09V", pi, gen.Cfg{MaxOpts: 4})
	q := *p
	x := p.Args[0]
	q.AST = &Node{K: KSeq, Kids: append(append([]*Node{}, p.AST.Kids...), &Node{K: KOptional, Kids: []*Node{{K: KRep, Kids: []*Node{{K: KArg, Arg: x}}}}})}
	q.Spec = q.AST.String()
	argv := gen.Sentence(c.R, p, gen.Cfg{})
	argv = append(argv, "--")
	nt := 1 + c.R.Intn(4)
	for i := 0; i < nt; i++ {
		argv = append(argv, c09Tail[c.R.Intn(len(c09Tail))])
	}
	if hasHelp(argv) {
		return
	}
	d := descOf(&q, argv)
	c.Nontrivial("V", d.Decl, d.Spec, fmt.Sprintf("%q", argv))
	if _, ok := c09Judge(c, &q, argv, "V"); ok {
		for _, t := range argv[len(argv)-nt:] {
			if t == "--" {
				c.Inc("V_second_dd_in_tail")
			}
		}
	}
}
