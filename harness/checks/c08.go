package checks

import (
	"fmt"
	"math/rand"
	"strings"

	"verif/core"
	"verif/drive"
	. "verif/refsem"
)

const c08Alphabet = " \t[]()|.-=<>azXQ1_#"

var c08Tokens = []string{"X", "-a", "--out", "-ao", "OPTIONS", "[", "]", "(", ")", "|", "...", "--", "=<v>", "-z", "Q"}

var c08Opts = map[string]bool{"-a": true, "--aa": true, "-o": true, "--out": true}
var c08Args = map[string]bool{"X": true}

func c08Lens(tier string) (chars, toks, random int) {
	if tier == "thorough" {
		return 6, 6, 5000000
	}
	return 4, 4, 200000
}

const c08RandomPerCase = 500

func c08Blocks(tier string) (charBlocks, tokBlocks, randBlocks int) {
	_, _, rnd := c08Lens(tier)
	na, nt := len(c08Alphabet), len(c08Tokens)
	return 1 + na*na, 1 + nt*nt, rnd / c08RandomPerCase
}

func init() {
	core.Register(&core.Check{
		ID:        "C08",
		Title:     "A spec string compiles iff it is well-formed; errors point inside the string",
		Technique: "bounded-exhaustive and random differential monitor: real lexer+parser (through Run and the VerifTokenize hook) vs a reference recogniser; token-extent monitor on the hooked token stream",
		Rule: "exhaustive: every string over 19 character classes (blank, tab, [ ] ( ) | . - = < >, declared/undeclared lower case, declared/undeclared upper case, digit, _, other) up to length 4 (quick) / 6 (thorough), " +
			"every sequence of up to 4 / 6 tokens out of 15 (incl. OPTIONS, folded, annotation, undeclared names), plus random longer strings from fragments and raw bytes (against every declared/undeclared naming), plus sequences of 3-4 specs given in turn to ONE application object (optionally with a version flag requested on each Run); declarations: -a/--aa flag, -o/--out valued, X. " +
			"Oracle per string: compiles iff the reference recogniser accepts; on rejection Run panics with an error whose position lies inside the string and inside the extent of the first offending lexeme or at the first token where the LL(1) reading fails; " +
			"no Before/Action/After event precedes the panic (also when the bad spec belongs to a subcommand reached by routing, sampled); whenever the lexer succeeds its tokens are ordered, non-overlapping, each text equals the slice of the spec it claims, " +
			"every non-blank byte lies in exactly one token, and kinds/extents equal the reference lexer's. non-trivial = string of >=2 bytes; distinct by string. exhaustive=true refers to the two enumerated families.",
		Assumptions: []string{
			"reference grammar of DESIGN.md 3.1; '--' glued to a character that is neither blank nor a name character is unclaimed (only one of the two documented outcomes is required)",
		},
		Cases: func(tier string) int {
			a, b, c := c08Blocks(tier)
			return a + b + c
		},
		Floor:      tiered(100000, 10000000),
		Exhaustive: func(string) bool { return true },
		Run:        runC08,
	})
}

func runC08(c *core.Ctx) {
	cb, tb, _ := c08Blocks(c.Tier)
	maxC, maxT, _ := c08Lens(c.Tier)
	na, nt := len(c08Alphabet), len(c08Tokens)
	switch {
	case c.Index == 0:
		c08One(c, "", "chars")
		for i := 0; i < na; i++ {
			c08One(c, c08Alphabet[i:i+1], "chars")
		}
	case c.Index < cb:
		k := c.Index - 1
		buf := []byte{c08Alphabet[k/na], c08Alphabet[k%na]}
		var rec func()
		rec = func() {
			c08One(c, string(buf), "chars")
			if len(buf) == maxC {
				return
			}
			for i := 0; i < na; i++ {
				buf = append(buf, c08Alphabet[i])
				rec()
				buf = buf[:len(buf)-1]
			}
		}
		rec()
	case c.Index == cb:
		for i := 0; i < nt; i++ {
			c08One(c, c08Tokens[i], "tokens")
		}
	case c.Index < cb+tb:
		k := c.Index - cb - 1
		cur := []string{c08Tokens[k/nt], c08Tokens[k%nt]}
		var rec func()
		rec = func() {
			c08One(c, strings.Join(cur, " "), "tokens")
			if len(cur) == maxT {
				return
			}
			for i := 0; i < nt; i++ {
				cur = append(cur, c08Tokens[i])
				rec()
				cur = cur[:len(cur)-1]
			}
		}
		rec()
	default:
		for i := 0; i < c08RandomPerCase; i++ {
			c08One(c, c08Random(c.R), "random")
		}
		for i := 0; i < 10; i++ {
			c08Sequence(c)
		}
	}
}

// c08Sequence: one application object is given 3-4 specs in turn (its Spec field is replaced between Runs), sometimes with
// a declared version flag requested on every Run: every Run must compile or reject the spec it was given, whatever the
// object compiled before and whatever the command line asks for
func c08Sequence(c *core.Ctx) {
	n := 3 + c.R.Intn(2)
	var specs []string
	for i := 0; i < n; i++ {
		s := c08Random(c.R)
		if c.R.Intn(2) == 0 || s == "" {
			s = []string{"X", "[-a] X", "[OPTIONS] [X]", "-a | -o", "[X...]", "-a -- X"}[c.R.Intn(6)]
		}
		if c.R.Intn(4) == 0 && i > 0 {
			s = specs[c.R.Intn(len(specs))] // the same spec again
		}
		specs = append(specs, s)
	}
	version := c.R.Intn(3) == 0
	c.Journal(map[string]interface{}{"spec_sequence_on_one_app_object": specs, "version_flag_requested": version})
	outs := drive.CompileSequence(specs, 7, version)
	c.Eval()
	c.Inc("family_sequence")
	for i, s := range specs {
		v := RefSpec(s, c08Opts, c08Args)
		if v.Unclaimed {
			continue
		}
		o := outs[i]
		if o.Pan != nil {
			c.Violation(fmt.Sprintf("step %d (%q): panic that is not a positioned spec error: %v", i, s, o.Pan), nil, nil)
			return
		}
		if v.Ok != o.OK {
			c.Violation(fmt.Sprintf("step %d of a sequence on one application object: spec %q well-formed=%v, compiled=%v (version flag requested: %v)", i, s, v.Ok, o.OK, version), nil, nil)
			return
		}
		if !o.OK && (len(o.Events) > 0 || o.SpecErr.Input != s || o.SpecErr.Pos < v.ErrLo || o.SpecErr.Pos > v.ErrHi) {
			c.Violation(fmt.Sprintf("step %d: spec %q rejected with position %d (expected within [%d,%d]), input %q, events %v", i, s, o.SpecErr.Pos, v.ErrLo, v.ErrHi, o.SpecErr.Input, o.Events), nil, nil)
			return
		}
		if o.OK {
			c.Inc("sequence_steps_compiled")
		} else {
			c.Inc("sequence_steps_rejected")
		}
	}
}

var c08Frags = []string{"[", "]", "(", ")", "|", "...", "-a", "--aa", "-o", "--out", "-ao", "OPTIONS", "X", "Y", "--", "-- ", " ", "\t", "=<x>", "-", ".", "=", "<", ">", "-z", "Q", "_", "1", "\x00", "\xff", "é",
	"[OPTIONS]", "X...", "[X]...", "[-a]...", "(--)...", "--out=<a b>", "-a=<x>", "X_1", "--a-b", "--aa-", "-o-", "OPTIONSX", "XOPTIONS", "..", "....", "=<>", "=<", "-aA"}

func c08Random(r *rand.Rand) string {
	if r.Intn(12) == 0 {
		// 1-14 nested groups around a small core
		s := []string{"-a X", "X", "-a", "[X]", "-o=<x> X"}[r.Intn(5)]
		for d, n := 0, 1+r.Intn(14); d < n; d++ {
			switch r.Intn(4) {
			case 0:
				s = "(" + s + ")"
			case 1:
				s = "[" + s + "]"
			case 2:
				s = "[ (" + s + ") ]"
			default:
				s = "(" + s + ")..."
			}
		}
		return s
	}
	if r.Intn(4) == 0 {
		b := make([]byte, r.Intn(12))
		r.Read(b)
		return string(b)
	}
	k := r.Intn(14)
	var sb strings.Builder
	for j := 0; j < k; j++ {
		sb.WriteString(c08Frags[r.Intn(len(c08Frags))])
		if r.Intn(3) == 0 {
			sb.WriteByte(' ')
		}
	}
	return sb.String()
}

var c08Kinds = map[string]string{"Arg": "Arg", "Options": "Options", "ShortOpt": "Short", "LongOpt": "Long", "OptSeq": "Seq", "OptValue": "Val", "DblDash": "DD", "Rep": "Rep",
	"OpenPar": "(", "ClosePar": ")", "OpenSq": "[", "CloseSq": "]", "Choice": "|"}

func c08One(c *core.Ctx, s string, family string) {
	c.Journal(s)
	c.Eval()
	c.Inc("family_" + family)
	if len(s) >= 2 {
		c.Nontrivial(s)
	}
	mask := 7
	opts, args := c08Opts, c08Args
	if family == "random" {
		// every declared/undeclared naming: a random subset of the names is declared
		mask = 1 + c.R.Intn(15)
		opts, args = map[string]bool{}, map[string]bool{}
		if mask&1 != 0 {
			opts["-a"], opts["--aa"] = true, true
		}
		if mask&2 != 0 {
			opts["-o"], opts["--out"] = true, true
		}
		if mask&4 != 0 {
			args["X"] = true
		}
		if mask&8 != 0 {
			args["Y"] = true
		}
		c.Inc(fmt.Sprintf("declared_mask_%d", mask))
	}
	v := RefSpec(s, opts, args)
	sub := family == "random" && len(s)%3 == 0
	via := 0
	if sub {
		via = 1 + c.R.Intn(len(drive.CompileVias)-1)
	}
	out := drive.CompileSpec(s, via, mask)
	if out.Pan != nil {
		c.Violation(fmt.Sprintf("Run panicked with something that is not a positioned spec error: %v", out.Pan), nil, nil)
		return
	}
	// ---- lexer monitor (independent of declarations)
	toks, lexPos, lexErr := drive.Tokenize(s)
	rtoks, lo, hi, lexUnclaimed, rok := RefLex(s)
	if lexErr == nil {
		covered := make([]int, len(s))
		prevEnd := 0
		for i, t := range toks {
			text := t.Val
			if t.Typ == "OptSeq" {
				text = "-" + t.Val
			}
			end := t.Pos + len(text)
			if t.Pos < prevEnd || end > len(s) || t.Pos < 0 || s[t.Pos:end] != text {
				c.Violation(fmt.Sprintf("token %d (%s %q @%d) is not the slice of the spec it claims, or overlaps the previous one", i, t.Typ, t.Val, t.Pos), nil, nil)
				return
			}
			prevEnd = end
			for k := t.Pos; k < end; k++ {
				covered[k]++
			}
		}
		for k := 0; k < len(s); k++ {
			if s[k] != ' ' && s[k] != '\t' && covered[k] != 1 {
				c.Violation(fmt.Sprintf("byte %d (%q) of a spec the lexer accepts belongs to %d tokens", k, s[k], covered[k]), nil, nil)
				return
			}
		}
		c.Inc("lexed_ok")
		c.Add("tokens_checked", len(toks))
	} else if lexPos < 0 || lexPos > len(s) {
		c.Violation(fmt.Sprintf("lexer error position %d outside [0,%d]", lexPos, len(s)), nil, nil)
		return
	}
	if !lexUnclaimed {
		if rok != (lexErr == nil) {
			c.Violation(fmt.Sprintf("lexer verdict: library ok=%v, reference ok=%v", lexErr == nil, rok), nil, nil)
			return
		}
		if rok {
			if len(rtoks) != len(toks) {
				c.Violation(fmt.Sprintf("lexer produced %d tokens, reference %d", len(toks), len(rtoks)), nil, nil)
				return
			}
			for i := range toks {
				if c08Kinds[toks[i].Typ] != rtoks[i].Typ || toks[i].Pos != rtoks[i].Start {
					c.Violation(fmt.Sprintf("token %d: library %s@%d, reference %s@%d", i, toks[i].Typ, toks[i].Pos, rtoks[i].Typ, rtoks[i].Start), nil, nil)
					return
				}
			}
		} else if lexPos < lo || lexPos > hi {
			c.Violation(fmt.Sprintf("lexer error at %d, offending lexeme spans [%d,%d]", lexPos, lo, hi), nil, nil)
			return
		}
	}
	// ---- compile-or-reject
	if out.SpecErr != nil {
		if len(out.Events) > 0 {
			c.Violation(fmt.Sprintf("events %v before the spec error", out.Events), nil, nil)
			return
		}
		if out.SpecErr.Pos < 0 || out.SpecErr.Pos > len(s) || strings.HasPrefix(out.SpecErr.Text, "Error() panicked") || out.SpecErr.Input != s {
			c.Violation(fmt.Sprintf("spec error position %d / input %q / text %q not inside the string", out.SpecErr.Pos, out.SpecErr.Input, out.SpecErr.Text), nil, nil)
			return
		}
	}
	if v.Unclaimed {
		c.Inc("unclaimed")
		return
	}
	if v.Ok != out.OK {
		c.Violation(fmt.Sprintf("reference well-formed=%v (%s), library compiled=%v", v.Ok, v.Msg, out.OK), nil, nil)
		return
	}
	if out.OK {
		c.Inc("compiled")
		if sub {
			c.Inc("compiled_as_subcommand")
			if via >= 2 {
				c.Inc("compiled_on_a_help_path")
			}
		}
		if c.WantSample() && len(s) > 8 && family != "chars" {
			c.Sample(map[string]interface{}{"spec": s, "verdict": "compiles", "family": family})
		}
		return
	}
	c.Inc("rejected")
	if sub {
		c.Inc("rejected_as_subcommand")
		if via >= 2 {
			c.Inc("rejected_on_a_help_path")
		}
	}
	if out.SpecErr.Pos < v.ErrLo || out.SpecErr.Pos > v.ErrHi {
		c.Violation(fmt.Sprintf("error reported at %d, the offending token spans [%d,%d] (%s)", out.SpecErr.Pos, v.ErrLo, v.ErrHi, v.Msg), nil, nil)
		return
	}
	if c.WantSample() && len(s) > 8 && family == "random" {
		c.Sample(map[string]interface{}{"spec": s, "verdict": "rejected", "pos": out.SpecErr.Pos, "offending_extent": []int{v.ErrLo, v.ErrHi}, "family": family})
	}
}
