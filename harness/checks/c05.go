package checks

import (
	"bytes"
	"flag"
	"fmt"
	"os"
	"os/exec"
	"strconv"
	"strings"

	cli "github.com/jawher/mow.cli"

	"verif/core"
	"verif/drive"
	. "verif/refsem"
)

// C05: hook flow. A configuration is, for a chain of d+1 nested commands, one behaviour out of
// {absent, returns, panics, Exit(n)} for each Before, the Action of the addressed command and each After.

const c05Block = 64 // configurations per case index

// behaviours: 0 absent, 1 returns, 2 panics, 3 Exit(distinct non-zero status), 4 Exit(0)
const c05Kinds = 5
const behExit0 = 4

func c05IsExit(b int) bool { return b == drive.BehExit || b == behExit0 }
func c05Raises(b int) bool { return b == drive.BehPanic || c05IsExit(b) }

// exit statuses: small distinct ones, and per hook position also values beyond a byte, negative and large ones (the
// status handed to the exit function must be the one given to Exit, whatever the operating system makes of it)
func c05Code(b, i int) int {
	if b == behExit0 {
		return 0
	}
	switch i % 4 {
	case 1:
		return 300 + i
	case 2:
		return -(1 + i)
	case 3:
		return 70000 + i
	}
	return 10 + i
}
func c05Beh(b, i int) drive.Beh {
	if b == behExit0 {
		return drive.Beh{Kind: drive.BehExit, Code: 0}
	}
	return drive.Beh{Kind: b, Code: c05Code(b, i)}
}

// digest of a configuration: selects the error policy and what kind of value each panicking hook raises
func (k c05Cfg) digest() int {
	h := k.d
	for i, b := range k.beh {
		h = h*7 + b + i
	}
	if h < 0 {
		h = -h
	}
	return h
}

func c05Count(d int) int { // 5^(2(d+1)+1)
	n := 1
	for i := 0; i < 2*(d+1)+1; i++ {
		n *= c05Kinds
	}
	return n
}

func c05Sizes(tier string) (exhaustiveMaxD int, sampled int, children int) {
	if tier == "thorough" {
		return 3, 400000, 400
	}
	return 2, 20000, 0
}

func c05Cases(tier string) (exh, smp, ch int) {
	maxD, sampled, children := c05Sizes(tier)
	for d := 0; d <= maxD; d++ {
		exh += (c05Count(d) + c05Block - 1) / c05Block
	}
	return exh, sampled / c05Block, children
}

func init() {
	core.Register(&core.Check{
		ID:        "C05",
		Title:     "Before/Action/After run in nesting order; Afters always run; Exit comes last",
		Technique: "bounded-exhaustive runtime monitor: event log of every hook, exit stub and recovered panic value of the real library, judged by an executable flow model; sample re-run in real child processes with the real os.Exit",
		Rule: "a case is a chain of d+1 nested commands and one behaviour out of {absent, returns, panics (with a distinct pointer, an error value, a Go runtime error or a string, chosen per hook), calls Exit with a distinct non-zero status, calls Exit(0)} for each Before, the addressed Action and each After: " +
			"ALL combinations for d<=2 (quick) / d<=3 (thorough), random combinations for d=4,5 (half of them run twice on the same application object); the error policy varies with the configuration; thorough additionally re-runs sampled combinations in child processes without any stub (real os.Exit), observing the flushed event log, " +
			"the exit status and the panic on stderr. Oracle (DESIGN 3.6): exact event sequence, each hook at most once, exit exactly once, as the last event and with the status of the most recently raised Exit, " +
			"the re-panicked value identical (pointer equality) to the most recently raised one, nil return otherwise. Configurations whose Action is absent are unclaimed (the library prints help instead) and only counted. " +
			"Raised values: *PanicValue, an error, a runtime error, a string, an error with an ExitCode method, a []string (identity checked); one hook in five raises its value from a deferred call while the other kind (panic vs Exit) is already in flight. " +
			"non-trivial = configuration with at least one raising hook; distinct by configuration.",
		Assumptions: []string{
			"in-process runs end a goroutine at the exit stub with runtime.Goexit, the closest model of 'the process ends here'; validated against real processes in the thorough tier",
		},
		Cases: func(tier string) int {
			a, b, c := c05Cases(tier)
			return a + b + c
		},
		Floor:      tiered(10000, 200000),
		Exhaustive: func(string) bool { return true },
		Run:        runC05,
	})
	core.Children["c05"] = c05Child
}

// configuration: behaviours in the order B0..Bd, ACT, Ad..A0 ; encoded as digits 0-3
type c05Cfg struct {
	d   int
	beh []int // len 2(d+1)+1
}

func (k c05Cfg) String() string {
	var sb strings.Builder
	for _, b := range k.beh {
		sb.WriteByte(byte('0' + b))
	}
	return fmt.Sprintf("d=%d:%s", k.d, sb.String())
}

func (k c05Cfg) names() []string {
	var n []string
	for i := 0; i <= k.d; i++ {
		n = append(n, fmt.Sprintf("B%d", i))
	}
	n = append(n, fmt.Sprintf("ACT%d", k.d))
	for i := k.d; i >= 0; i-- {
		n = append(n, fmt.Sprintf("A%d", i))
	}
	return n
}

func (k c05Cfg) describe() string {
	kinds := []string{"absent", "returns", "panics", "Exit", "Exit(0)"}
	var ps []string
	for i, n := range k.names() {
		s := n + ":" + kinds[k.beh[i]]
		if k.beh[i] == drive.BehExit {
			s += fmt.Sprintf("(%d)", c05Code(k.beh[i], i))
		}
		ps = append(ps, s)
	}
	return strings.Join(ps, " ")
}

func c05FromNumber(d, n int) c05Cfg {
	k := c05Cfg{d: d, beh: make([]int, 2*(d+1)+1)}
	for i := range k.beh {
		k.beh[i] = n % c05Kinds
		n /= c05Kinds
	}
	return k
}

// model returns the expected events, the index of the hook whose raised value decides the end (-1: none)
func (k c05Cfg) model() (events []string, last int) {
	names := k.names()
	last = -1
	d := k.d
	var completed []int
	raised := false
	for i := 0; i <= d; i++ {
		b := k.beh[i]
		if b == drive.BehAbsent {
			completed = append(completed, i)
			continue
		}
		events = append(events, names[i])
		if c05Raises(b) {
			last = i
			raised = true
			break
		}
		completed = append(completed, i)
	}
	if !raised {
		ai := d + 1
		events = append(events, names[ai])
		if c05Raises(k.beh[ai]) {
			last = ai
		}
	}
	for x := len(completed) - 1; x >= 0; x-- {
		lvl := completed[x]
		hi := d + 1 + (d - lvl) + 1 // index of A<lvl>
		b := k.beh[hi]
		if b == drive.BehAbsent {
			continue
		}
		events = append(events, names[hi])
		if c05Raises(b) {
			last = hi
		}
	}
	return
}

func (k c05Cfg) tree() *drive.Cmd {
	var root, cur *drive.Cmd
	for i := 0; i <= k.d; i++ {
		n := &drive.Cmd{ID: i, Aliases: []string{fmt.Sprintf("c%d", i), fmt.Sprintf("c%d_alias", i), fmt.Sprintf("k%d", i)}, Prog: &Prog{}, Parent: cur}
		n.Before = c05Beh(k.beh[i], i)
		n.Before.PanKind = (k.digest() + i) % 6
		n.Before.Deferred = (k.digest()+i)%5 == 2
		hi := k.d + 1 + (k.d - i) + 1
		n.After = c05Beh(k.beh[hi], hi)
		n.After.PanKind = (k.digest() + hi) % 6
		n.After.Deferred = (k.digest()+hi)%5 == 2
		if i == k.d {
			n.Action = c05Beh(k.beh[k.d+1], k.d+1)
			n.Action.PanKind = (k.digest() + k.d + 1) % 6
			n.Action.Deferred = (k.digest()+k.d+1)%5 == 2
		} else {
			n.Action = drive.Beh{Kind: drive.BehReturn} // never addressed
		}
		if cur == nil {
			root = n
		} else {
			cur.Kids = []*drive.Cmd{n}
		}
		cur = n
	}
	return root
}

// the path is written with the first name or one of the aliases of each command, chosen by the configuration
func (k c05Cfg) argv() []string {
	var a []string
	for i := 1; i <= k.d; i++ {
		switch (k.digest() + i) % 3 {
		case 0:
			a = append(a, fmt.Sprintf("c%d", i))
		case 1:
			a = append(a, fmt.Sprintf("c%d_alias", i))
		default:
			a = append(a, fmt.Sprintf("k%d", i))
		}
	}
	return a
}

func runC05(c *core.Ctx) {
	exh, smp, _ := c05Cases(c.Tier)
	maxD, _, _ := c05Sizes(c.Tier)
	switch {
	case c.Index < exh:
		idx := c.Index
		for d := 0; d <= maxD; d++ {
			blocks := (c05Count(d) + c05Block - 1) / c05Block
			if idx < blocks {
				for n := idx * c05Block; n < (idx+1)*c05Block && n < c05Count(d); n++ {
					c05One(c, c05FromNumber(d, n), "exhaustive")
				}
				return
			}
			idx -= blocks
		}
	case c.Index < exh+smp:
		for i := 0; i < c05Block; i++ {
			d := 4 + c.R.Intn(2)
			if c.R.Intn(10) == 0 {
				d = 6 + c.R.Intn(3) // up to nine nested commands
			}
			k := c05Cfg{d: d, beh: make([]int, 2*(d+1)+1)}
			for j := range k.beh {
				k.beh[j] = c.R.Intn(c05Kinds)
				if c.R.Intn(3) == 0 {
					k.beh[j] = drive.BehReturn
				}
			}
			if k.beh[d+1] == drive.BehAbsent {
				k.beh[d+1] = drive.BehReturn
			}
			c05One(c, k, "sampled")
		}
	default:
		d := c.R.Intn(4)
		k := c05Cfg{d: d, beh: make([]int, 2*(d+1)+1)}
		for j := range k.beh {
			k.beh[j] = c.R.Intn(c05Kinds)
		}
		if k.beh[d+1] == drive.BehAbsent {
			k.beh[d+1] = drive.BehExit
		}
		c05RealProcess(c, k)
	}
}

func c05One(c *core.Ctx, k c05Cfg, family string) {
	if k.beh[k.d+1] == drive.BehAbsent {
		c.Inc("unclaimed_action_absent")
		return
	}
	desc := map[string]interface{}{"config": k.String(), "hooks": k.describe(), "argv": k.argv()}
	c.Journal(desc)
	wantEv, last := k.model()
	policy := []flag.ErrorHandling{flag.ContinueOnError, flag.ExitOnError, flag.PanicOnError}[k.digest()%3]
	c.Inc("policy_" + policyName(policy))
	var o *drive.Obs
	if family == "sampled" && k.digest()%2 == 0 {
		// the same application object is run twice: the second run must go through the whole flow again
		b := drive.Build(&drive.App{Root: k.tree(), Policy: policy})
		first := b.Run(k.argv())
		o = b.Run(k.argv())
		c.Inc("second_run_on_same_object")
		if first.EventStr() != o.EventStr() {
			c.Violation(fmt.Sprintf("first run of the application object: events %s; second run: %s", first.EventStr(), o.EventStr()), map[string]interface{}{"hooks": k.describe()}, nil)
			return
		}
	} else {
		o = drive.Run(&drive.App{Root: k.tree(), Policy: policy}, k.argv())
	}
	c.Eval()
	c.Inc("family_" + family)
	c.Inc(fmt.Sprintf("depth_%d", k.d))
	names := k.names()
	if last >= 0 {
		c.Nontrivial(k.String())
	}
	want := append([]string{}, wantEv...)
	switch {
	case last < 0:
		want = append(want, "RET")
		c.Inc("end_nil")
	case c05IsExit(k.beh[last]):
		want = append(want, fmt.Sprintf("EXIT%d", c05Code(k.beh[last], last)))
		c.Inc("end_exit")
	default:
		c.Inc("end_panic")
	}
	if got := o.EventStr(); got != strings.Join(want, ",") {
		c.Violation(fmt.Sprintf("expected events %s, observed %s", strings.Join(want, ","), got), map[string]interface{}{"hooks": k.describe()}, nil)
		return
	}
	switch {
	case last < 0:
		if o.Err != nil || o.Pan != nil || o.Exit != nil {
			c.Violation(fmt.Sprintf("expected a nil return; err=%v panic=%v", o.Err, o.Pan), nil, nil)
		}
	case c05IsExit(k.beh[last]):
		if o.Exits != 1 || o.Pan != nil {
			c.Violation(fmt.Sprintf("expected exactly one exit; exits=%d panic=%v", o.Exits, o.Pan), nil, nil)
		}
	default:
		c.Inc(fmt.Sprintf("panic_value_kind_%d", (k.digest()+last)%4))
		if o.Pan == nil || !drive.SamePanic(o.Pan, o.PanVals[names[last]]) || o.Exit != nil {
			c.Violation(fmt.Sprintf("expected the value raised by %s to be re-raised unchanged; observed panic=%#v exit=%v", names[last], o.Pan, o.Exit), nil, nil)
		}
	}
	if c.WantSample() && k.d >= 2 && last > k.d+1 && family == "exhaustive" {
		desc["expected_events"] = strings.Join(want, ",")
		c.Sample(desc)
	}
}

// ---- real child processes: no stub, real os.Exit ----

func c05Child(args []string) int {
	if len(args) < 2 {
		return 64
	}
	d, _ := strconv.Atoi(args[0])
	k := c05Cfg{d: d}
	for _, ch := range args[1] {
		k.beh = append(k.beh, int(ch-'0'))
	}
	if len(k.beh) != 2*(d+1)+1 {
		return 64
	}
	names := k.names()
	emit := func(s string) { os.Stdout.WriteString(s + "\n") } // unbuffered: survives os.Exit
	app := cli.App("c0", "")
	app.ErrorHandling = flag.ContinueOnError
	hook := func(i int) func() {
		if k.beh[i] == drive.BehAbsent {
			return nil
		}
		return func() {
			emit(names[i])
			switch k.beh[i] {
			case drive.BehPanic:
				panic(fmt.Sprintf("PANICVALUE-%s", names[i]))
			case drive.BehExit:
				cli.Exit(c05Code(k.beh[i], i))
			case behExit0:
				cli.Exit(0)
			}
		}
	}
	var build func(c *cli.Cmd, lvl int)
	build = func(c *cli.Cmd, lvl int) {
		c.Before = hook(lvl)
		c.After = hook(k.d + 1 + (k.d - lvl) + 1)
		if lvl == k.d {
			c.Action = hook(k.d + 1)
			return
		}
		c.Command(fmt.Sprintf("c%d c%d_alias k%d", lvl+1, lvl+1, lvl+1), "", func(sc *cli.Cmd) { build(sc, lvl+1) })
	}
	build(app.Cmd, 0)
	err := app.Run(append([]string{"c0"}, k.argv()...))
	emit(fmt.Sprintf("RET err=%v", err))
	return 0
}

func c05RealProcess(c *core.Ctx, k c05Cfg) {
	var sb strings.Builder
	for _, b := range k.beh {
		sb.WriteByte(byte('0' + b))
	}
	desc := map[string]interface{}{"config": k.String(), "hooks": k.describe(), "mode": "real child process, real os.Exit"}
	c.Journal(desc)
	self, err := os.Executable()
	if err != nil {
		c.Inc("child_not_started")
		return
	}
	cmd := exec.Command(self, "child", "c05", strconv.Itoa(k.d), sb.String())
	var stdout, stderr bytes.Buffer
	cmd.Stdout, cmd.Stderr = &stdout, &stderr
	runErr := cmd.Run()
	status := 0
	if ee, ok := runErr.(*exec.ExitError); ok {
		status = ee.ExitCode()
	} else if runErr != nil {
		c.Inc("child_not_started")
		return
	}
	c.Eval()
	c.Inc("family_real_process")
	wantEv, last := k.model()
	names := k.names()
	c.Nontrivial("real", k.String())
	got := strings.Fields(strings.ReplaceAll(stdout.String(), "RET err=<nil>", "RET"))
	want := append([]string{}, wantEv...)
	wantStatus := 0
	switch {
	case last < 0:
		want = append(want, "RET")
	case c05IsExit(k.beh[last]):
		wantStatus = int(uint8(c05Code(k.beh[last], last))) // what the operating system keeps of the status
	default:
		wantStatus = 2 // Go runtime: unrecovered panic
	}
	if strings.Join(got, ",") != strings.Join(want, ",") || status != wantStatus {
		c.Violation(fmt.Sprintf("real process: expected events %v and exit status %d; observed %v and %d", want, wantStatus, got, status), map[string]interface{}{"stderr": truncateStr(stderr.String(), 300)}, nil)
		return
	}
	if last >= 0 && k.beh[last] == drive.BehPanic && !strings.Contains(stderr.String(), "PANICVALUE-"+names[last]) {
		c.Violation(fmt.Sprintf("real process: the panic that ended the process is not the value raised by %s", names[last]), map[string]interface{}{"stderr": truncateStr(stderr.String(), 300)}, nil)
		return
	}
	c.Inc(fmt.Sprintf("real_exit_status_%d", status))
}
