package checks

import (
	"errors"
	"flag"
	"fmt"
	"io"
	"os"
	"strings"

	cli "github.com/jawher/mow.cli"

	"verif/core"
	"verif/gen"
)

// instrumented custom value types: every subset of the optional methods IsBoolFlag / Clear / IsDefault

type cvBase struct {
	log  *[]string
	bad  string
	vals []string
}

func (b *cvBase) Set(s string) error {
	*b.log = append(*b.log, "Set("+s+")")
	if s == b.bad {
		return errors.New("bad value")
	}
	b.vals = append(b.vals, s)
	return nil
}
func (b *cvBase) String() string { return strings.Join(b.vals, "|") }

type cvPlain struct{ cvBase }
type cvB struct {
	cvBase
	isb bool
}
type cvC struct{ cvBase }
type cvD struct{ cvBase }
type cvBC struct {
	cvBase
	isb bool
}
type cvBD struct {
	cvBase
	isb bool
}
type cvCD struct{ cvBase }
type cvBCD struct {
	cvBase
	isb bool
}

func (t *cvB) IsBoolFlag() bool   { return t.isb }
func (t *cvBC) IsBoolFlag() bool  { return t.isb }
func (t *cvBD) IsBoolFlag() bool  { return t.isb }
func (t *cvBCD) IsBoolFlag() bool { return t.isb }
func (t *cvC) Clear()             { *t.log = append(*t.log, "Clear"); t.vals = nil }
func (t *cvBC) Clear()            { *t.log = append(*t.log, "Clear"); t.vals = nil }
func (t *cvCD) Clear()            { *t.log = append(*t.log, "Clear"); t.vals = nil }
func (t *cvBCD) Clear()           { *t.log = append(*t.log, "Clear"); t.vals = nil }
func (t *cvD) IsDefault() bool    { return len(t.vals) == 0 }
func (t *cvBD) IsDefault() bool   { return len(t.vals) == 0 }
func (t *cvCD) IsDefault() bool   { return len(t.vals) == 0 }
func (t *cvBCD) IsDefault() bool  { return len(t.vals) == 0 }

// cvMapVal is a user value type whose dynamic type is not hashable (a map with value receivers) and that has Clear
type cvMapVal struct {
	m   map[string]bool
	log *[]string
}

type cvMap map[string]*cvMapVal // value receivers on a map type: cannot be used as a map key

func (t cvMap) Set(s string) error {
	v := t[""]
	*v.log = append(*v.log, "Set("+s+")")
	if s == "BAD" {
		return errors.New("bad value")
	}
	v.m[s] = true
	return nil
}
func (t cvMap) String() string { return fmt.Sprint(len(t[""].m)) }
func (t cvMap) Clear()         { v := t[""]; *v.log = append(*v.log, "Clear"); v.m = map[string]bool{} }

var cvVariantNames = []string{"plain", "IsBoolFlag=true", "IsBoolFlag=false", "Clear", "IsDefault", "IsBoolFlag=true+Clear", "IsBoolFlag=false+Clear", "IsBoolFlag=true+IsDefault", "IsBoolFlag=false+IsDefault", "Clear+IsDefault", "IsBoolFlag=true+Clear+IsDefault", "IsBoolFlag=false+Clear+IsDefault", "map-typed value with Clear (unhashable)"}

func cvMake(variant int, log *[]string) (v flag.Value, isFlag, hasClear bool) {
	b := cvBase{log: log, bad: "BAD"}
	switch variant {
	case 0:
		return &cvPlain{b}, false, false
	case 1:
		return &cvB{b, true}, true, false
	case 2:
		return &cvB{b, false}, false, false
	case 3:
		return &cvC{b}, false, true
	case 4:
		return &cvD{b}, false, false
	case 5:
		return &cvBC{b, true}, true, true
	case 6:
		return &cvBC{b, false}, false, true
	case 7:
		return &cvBD{b, true}, true, false
	case 8:
		return &cvBD{b, false}, false, false
	case 9:
		return &cvCD{b}, false, true
	case 10:
		return &cvBCD{b, true}, true, true
	case 11:
		return &cvBCD{b, false}, false, true
	default:
		return cvMap{"": &cvMapVal{m: map[string]bool{}, log: log}}, false, true
	}
}

func init() {
	core.Register(&core.Check{
		ID:        "C19",
		Title:     "Custom value types are driven through the documented protocol",
		Technique: "runtime monitor: instrumented user value types log every Set/Clear call made by the real library; the call log is checked against the protocol (an online trace specification)",
		Rule: "two custom options (-v/--vv and -w/--ww) and one custom argument X, each of one of 13 instrumented types (every subset of the optional methods IsBoolFlag, Clear, IsDefault; IsBoolFlag returning true or false; a map-typed value with value receivers, which is not hashable), " +
			"declared through Var(VarOpt/VarArg) or the VarOpt/VarArg short forms, each with no / a valid / an invalid environment value (lists for types with Clear); Set fails on the token BAD; spec '[-v...] [-w...] [X...]' or '[OPTIONS] [X...]'; " +
			"command lines: 0-3 occurrences of each option in every spelling the type admits (flag usage iff IsBoolFlag()==true), interleaved, 0-2 positionals. Oracle on the call log: at declaration the environment protocol " +
			"(Clear, Set of each trimmed element, Clear again on the first error; single-valued: one Set per listed variable until one succeeds); at Run: for each variable Set is called with exactly the tokens bound to it, in order, preceded by exactly one Clear " +
			"iff the type has Clear and the line bound something; a flag occurrence without value arrives as Set(\"true\"); a Set error makes the invocation a usage error (no Action) - the variable whose Set failed has the expected log up to the failing call, " +
			"the others an admissible prefix of theirs. non-trivial = >=1 command-line value or an environment value; distinct by the whole case.",
		Assumptions: []string{"on a rejected invocation the order in which the library fills the other variables is unspecified (it walks a map): only prefix-consistency is asserted for them"},
		Cases:       tiered(60000, 2000000),
		Floor:       tiered(6000, 200000),
		Run:         runC19,
	})
}

type cvVar struct {
	name     string
	variant  int
	log      []string
	val      flag.Value
	isFlag   bool
	hasClear bool
	envState int // 0 none 1 valid 2 invalid
	envVal   string
	expEnv   []string
	want     []string // tokens the command line binds
	expRun   []string // expected call log at Run
}

func runC19(c *core.Ctx) {
	r := c.R
	cli.VerifSetStdErr(io.Discard)
	vals := []string{"a", "b", "BAD", "c", "true", "x=y", "false", "0", "é", "TRUE", "False", "T", "caf\xe9", "100%", "\"a b\"", "\"v\"", "'q'"}
	mk := func(name string) *cvVar {
		cv := &cvVar{name: name, variant: r.Intn(13), envState: r.Intn(3)}
		cv.val, cv.isFlag, cv.hasClear = cvMake(cv.variant, &cv.log)
		switch cv.envState {
		case 1:
			// the environment content reaches Set untouched (apart from the trimming of list elements), whatever it
			// looks like - also spellings that other libraries read as booleans
			words := []string{"e1", "yes", "off", "On", "no", "true", "false", "0", "Y"}
			cv.envVal = words[r.Intn(len(words))]
			if cv.hasClear {
				cv.envVal = words[r.Intn(len(words))] + ", " + words[r.Intn(len(words))] + " ," + words[r.Intn(len(words))]
				if r.Intn(4) == 0 {
					cv.envVal += []string{",", ",,e9", ", "}[r.Intn(3)] // empty list elements are elements
				}
			} else if r.Intn(3) == 0 {
				// a single-valued type gets the variable's content byte for byte, blanks included
				cv.envVal = []string{" e1 ", "two words", "\ttab", " ", "e1 "}[r.Intn(5)]
			}
		case 2:
			cv.envVal = "BAD"
			if cv.hasClear {
				cv.envVal = "e1,BAD,e3"
			}
		}
		if cv.envState > 0 {
			if cv.hasClear {
				cv.expEnv = append(cv.expEnv, "Clear")
				for _, p := range strings.Split(cv.envVal, ",") {
					p = strings.TrimSpace(p)
					cv.expEnv = append(cv.expEnv, "Set("+p+")")
					if p == "BAD" {
						cv.expEnv = append(cv.expEnv, "Clear")
						break
					}
				}
			} else {
				cv.expEnv = append(cv.expEnv, "Set("+cv.envVal+")")
			}
		}
		return cv
	}
	v, w, x := mk("v"), mk("w"), mk("X")
	vars := []*cvVar{v, w, x}
	for _, cv := range vars {
		os.Unsetenv("VPC_" + cv.name)
		os.Unsetenv("VPC_" + cv.name + "_2")
		if cv.envState > 0 {
			os.Setenv("VPC_"+cv.name, cv.envVal)
		}
		if cv.envState == 1 {
			os.Setenv("VPC_"+cv.name+"_2", "later") // a second listed variable: never consulted once the first one was usable
		}
	}
	defer func() {
		for _, cv := range vars {
			os.Unsetenv("VPC_" + cv.name)
			os.Unsetenv("VPC_" + cv.name + "_2")
		}
	}()
	app := cli.App("app", "")
	app.ErrorHandling = flag.ContinueOnError
	envOf := func(cv *cvVar) string {
		if cv.envState == 1 {
			return "VPC_" + cv.name + " VPC_" + cv.name + "_2"
		}
		if cv.envState > 0 {
			return "VPC_" + cv.name
		}
		return ""
	}
	for _, cv := range []*cvVar{v, w} {
		names := cv.name + " " + cv.name + cv.name
		if cv.envState == 0 && r.Intn(2) == 0 {
			app.VarOpt(names, cv.val, "")
		} else {
			app.Var(cli.VarOpt{Name: names, Value: cv.val, EnvVar: envOf(cv)})
		}
	}
	if x.envState == 0 && r.Intn(2) == 0 {
		app.VarArg("X", x.val, "")
	} else {
		app.Var(cli.VarArg{Name: "X", Value: x.val, EnvVar: envOf(x)})
	}
	specs := []string{"[-v...] [-w...] [X...]", "[OPTIONS] [X...]", "[-w...] [--vv...] [X...]"}
	app.Spec = specs[r.Intn(len(specs))]
	type cdesc struct {
		Types []string `json:"types"`
		Env   []string `json:"env"`
		Spec  string   `json:"spec"`
		Argv  []string `json:"argv"`
	}
	d := cdesc{Spec: app.Spec}
	for _, cv := range vars {
		d.Types = append(d.Types, cv.name+":"+cvVariantNames[cv.variant])
		d.Env = append(d.Env, cv.name+"="+cv.envVal)
	}
	// declaration-time protocol
	for _, cv := range vars {
		if strings.Join(cv.log, ",") != strings.Join(cv.expEnv, ",") {
			c.Journal(d)
			c.Violation(fmt.Sprintf("%s (%s): calls at declaration %v, expected %v for the environment value %q", cv.name, cvVariantNames[cv.variant], cv.log, cv.expEnv, cv.envVal), nil, nil)
			return
		}
		cv.log = nil
	}
	// command line: the v block then the w block (matching the first spec); [OPTIONS] and the third spec accept the same
	var argv []string
	block := func(cv *cvVar) {
		n := r.Intn(4)
		if r.Intn(20) == 0 {
			n = 8 + r.Intn(5)
		}
		var items []gen.Item
		_ = items
		for i := 0; i < n; i++ {
			short, long := "-"+cv.name, "--"+cv.name+cv.name
			if cv.isFlag {
				switch r.Intn(4) {
				case 0:
					argv = append(argv, short)
					cv.want = append(cv.want, "true")
				case 1:
					argv = append(argv, long)
					cv.want = append(cv.want, "true")
				case 2:
					val := vals[r.Intn(len(vals))]
					argv = append(argv, short+"="+val)
					cv.want = append(cv.want, val)
				default:
					val := vals[r.Intn(len(vals))]
					argv = append(argv, long+"="+val)
					cv.want = append(cv.want, val)
				}
			} else {
				val := vals[r.Intn(len(vals))]
				switch r.Intn(5) {
				case 0:
					argv = append(argv, short, val)
				case 1:
					argv = append(argv, short+val)
				case 2:
					argv = append(argv, long+"="+val)
				case 3:
					argv = append(argv, short+"="+val)
				default:
					argv = append(argv, long, val)
				}
				cv.want = append(cv.want, val)
			}
		}
	}
	if app.Spec == specs[2] || (app.Spec == specs[0] && r.Intn(3) == 0) {
		// (for the first spec too: an option matcher steps over the occurrences of the other option)
		block(w)
		block(v)
	} else {
		block(v)
		block(w)
	}
	// a lone dash is never the detached value of an option: the line is a usage error and the type never sees "-"
	dashValue := false
	if r.Intn(25) == 0 {
		for _, cv := range []*cvVar{w, v} {
			if !cv.isFlag {
				argv = append(argv, []string{"-" + cv.name, "--" + cv.name + cv.name}[r.Intn(2)], "-")
				dashValue = true
				break
			}
		}
	}
	na := r.Intn(3)
	for i := 0; i < na; i++ {
		val := vals[r.Intn(len(vals))]
		argv = append(argv, val)
		x.want = append(x.want, val)
	}
	d.Argv = argv
	c.Journal(d)
	ran := false
	app.Action = func() { ran = true }
	var pan interface{}
	var err error
	func() {
		defer func() { pan = recover() }()
		err = app.Run(append([]string{"app"}, argv...))
	}()
	c.Eval()
	if pan != nil {
		c.Violation(fmt.Sprintf("panic: %v", pan), nil, nil)
		return
	}
	if len(argv) > 0 || v.envState+w.envState+x.envState > 0 {
		c.Nontrivial(fmt.Sprintf("%+v", d))
	}
	if dashValue {
		if ran || err == nil {
			c.Violation(fmt.Sprintf("a lone dash was taken as the detached value of an option: ran=%v err=%v", ran, err), nil, nil)
			return
		}
		for _, cv := range []*cvVar{v, w} {
			for _, l := range cv.log {
				if l == "Set(-)" {
					c.Violation(fmt.Sprintf("%s received the token \"-\" that was not bound to it: %v", cv.name, cv.log), nil, nil)
					return
				}
			}
		}
		c.Inc("dash_as_detached_value_rejected")
		return
	}
	// expected logs
	anyFail := false
	for _, cv := range vars {
		if len(cv.want) > 0 {
			if cv.hasClear {
				cv.expRun = append(cv.expRun, "Clear")
			}
			for _, val := range cv.want {
				cv.expRun = append(cv.expRun, "Set("+val+")")
				if val == "BAD" {
					anyFail = true
					break
				}
			}
		}
	}
	isPrefix := func(got, exp []string) bool {
		if len(got) > len(exp) {
			return false
		}
		for i := range got {
			if got[i] != exp[i] {
				return false
			}
		}
		return true
	}
	if !anyFail {
		if !ran || err != nil {
			c.Violation(fmt.Sprintf("expected acceptance: ran=%v err=%v", ran, err), nil, nil)
			return
		}
		for _, cv := range vars {
			if strings.Join(cv.log, ",") != strings.Join(cv.expRun, ",") {
				c.Violation(fmt.Sprintf("%s (%s): calls %v, expected %v", cv.name, cvVariantNames[cv.variant], cv.log, cv.expRun), nil, nil)
				return
			}
		}
		c.Inc("accepted")
	} else {
		if ran || err == nil {
			c.Violation(fmt.Sprintf("a Set error must make the invocation a usage error: ran=%v err=%v", ran, err), nil, nil)
			return
		}
		failedSeen := 0
		for _, cv := range vars {
			if !isPrefix(cv.log, cv.expRun) {
				c.Violation(fmt.Sprintf("%s (%s): calls %v are not a prefix of the expected %v", cv.name, cvVariantNames[cv.variant], cv.log, cv.expRun), nil, nil)
				return
			}
			if len(cv.log) > 0 && cv.log[len(cv.log)-1] == "Set(BAD)" {
				failedSeen++
			}
		}
		if failedSeen != 1 {
			c.Violation(fmt.Sprintf("expected exactly one variable to stop at its failing Set, saw %d", failedSeen), nil, nil)
			return
		}
		c.Inc("rejected_by_set_error")
	}
	for _, cv := range vars {
		c.Inc("type_" + cvVariantNames[cv.variant])
	}
	if c.WantSample() && len(argv) >= 4 {
		c.Sample(d)
	}
}
