package checks

import (
	"flag"
	"fmt"
	"math/rand"
	"os"
	"path/filepath"
	"runtime"
	"strings"
	"sync"
	"sync/atomic"
	"time"

	"verif/core"
	"verif/drive"
	"verif/gen"
	. "verif/refsem"
)

const c20Pool = 120
const c20Goroutines = 16

func init() {
	core.Register(&core.Check{
		ID:        "C20",
		Title:     "Applications are independent and deterministic",
		Technique: "Go race detector over concurrently built-and-run applications + outcome-equality monitor (concurrent vs solo, permuted sequential order, rebuild)",
		Rule: "a case is a round over a pool of 120 (program, command line) pairs (generator of C01 incl. spec-level -- and env-backed options, a third of them declared with the built-in typed variables so that value conversions can fail; environment fixed before any goroutine starts): " +
			"(a) every pair is built and run solo and its outcome (acceptance + every bound value) recorded; (c) built and run a second time: same outcome; " +
			"(b) the pool is run sequentially in random permutations in the same process: every outcome equal to solo; (d) 2-4 applications are all declared first and then run in a random order: every outcome equal to solo; (g) one application object run on several command lines in turn reproduces the outcomes of fresh objects; (e) an Action that itself builds and runs another application, and two concurrently run applications whose Actions meet over an unbuffered channel, complete with their solo outcomes (a wall-clock watchdog of 20 s only reports a violation when the goroutine dump shows a lock wait inside the library); every solo outcome is also compared with the reference verdict; (a') 16 goroutines each build and run randomly drawn pairs concurrently, under the race detector: " +
			"every outcome equal to solo and no data race reported (race reports are collected from the detector's log, deduplicated by the top frames). The evidence reports how many runs overlapped (in-flight counter sampled at Run entry). " +
			"Also in every round: (h) applications declared while their environment variables are unset and run after they were exported (and the other way round) behave like never-set / always-set ones; " +
			"(i) applications that end badly (an ill-formed sub-command spec met while rendering help, a panicking Action, Exit plus a panicking After, a version request under ExitOnError) followed by pool applications, with both library streams captured over the whole sequence: solo outcomes, usage on the error stream, nothing on standard output, no lock left behind (goroutine dump inspected on a 20 s wait); a nameless application does not print the binary's name; " +
			"(k) the default error policy is ExitOnError whatever flag.CommandLine is set to; (j) during the concurrent phase every tenth step declares and runs an application whose command, option and argument names are new to the process. The pool also holds spec-less programs, programs declaring a version flag and spec-level --/env-backed variants. " +
			"non-trivial = a concurrent run that overlapped with at least one other; distinct by (round, goroutine, draw).",
		Assumptions: []string{
			"'all interleavings' is restated as: the interleavings the scheduler produced in the observed runs; the race detector only sees accesses that were executed",
			"the package-level error stream is a shared, stateless discarding writer during concurrent runs; no application exits (ContinueOnError)",
		},
		Cases:   tiered(24, 600),
		Floor:   tiered(5000, 100000),
		Race:    true,
		Workers: 4,
		Run:     runC20,
	})
}

type c20Pair struct {
	p       *Prog
	argv    []string
	solo    string
	typed   bool // declared with the built-in typed variables (Bool/Int/Ints/String/Strings): conversions can fail
	exit    int  // non-zero: the Action calls Exit(exit) and the After is slow
	version bool // the application also declares a version flag
}

func runC20(c *core.Ctx) {
	drive.Quiet()
	drive.PresetEnv(10)
	var pool []c20Pair
	for np := 0; len(pool) < c20Pool; np++ {
		cfg := variantCfg(np%4, c.Tier) // plain, with spec-level --, with env-backed options, with both
		p := gen.GenProg(c.R, cfg)
		if len(pool)%5 == 4 {
			p = gen.TinyProg(c.R) // identical spec strings with different meanings within one pool
		}
		pp := p
		if np%6 == 5 && len(p.Args) >= 2 {
			// no spec: the library generates one from the declarations, which must come out the same at every build
			q := *p
			q.Spec, q.AST = "", nil
			pp = &q
		}
		typed := len(pool)%3 == 2
		if typed {
			for _, o := range p.Opts {
				o.Int = !o.Flag && c.R.Intn(2) == 0
			}
			for _, a := range p.Args {
				a.Int = c.R.Intn(2) == 0
			}
		}
		for k := 0; k < 4; k++ {
			argv := gen.Argv(c.R, p, cfg)
			if hasHelp(argv) {
				continue
			}
			pool = append(pool, c20Pair{p: pp, argv: argv, typed: typed, version: np%7 == 3})
		}
	}
	// long lines (deep recursion in every concurrent parse) and applications that end through Exit after a slow After
	lx := &ArgDecl{Name: "X", Multi: true}
	la := &OptDecl{Names: []string{"a"}, Flag: true}
	lp := &Prog{Opts: []*OptDecl{la}, Args: []*ArgDecl{lx}}
	lp.AST = &Node{K: KSeq, Kids: []*Node{{K: KOptional, Kids: []*Node{{K: KOpt, Opt: la, Name: "-a"}}}, {K: KRep, Kids: []*Node{{K: KArg, Arg: lx}}}}}
	lp.Spec = lp.AST.String()
	for k := 0; k < 4; k++ {
		argv := []string{"-a"}
		for i := 0; i < 120+40*k; i++ {
			argv = append(argv, "w")
		}
		pool = append(pool, c20Pair{p: lp, argv: argv})
	}
	for k := 0; k < 8; k++ {
		pool = append(pool, c20Pair{p: &Prog{}, exit: 20 + k})
	}
	mkApp := func(pr c20Pair) *drive.App {
		app := drive.Single(pr.p)
		app.Shared = true
		app.Builtin = pr.typed
		app.Version = pr.version
		if pr.exit != 0 {
			app.Root.Action = drive.Beh{Kind: drive.BehExit, Code: pr.exit}
			app.Root.After = drive.Beh{Kind: drive.BehReturn, Spin: 50}
		}
		return app
	}
	run := func(pr c20Pair) string { return drive.OutcomeKey(pr.p, drive.Run(mkApp(pr), pr.argv)) }
	c.Journal(map[string]interface{}{"round": c.Index, "pool": len(pool), "first_spec": pool[0].p.Spec, "first_argv": pool[0].argv})
	// (a) solo, (c) rebuild
	for i := range pool {
		pool[i].solo = run(pool[i])
		c.Eval()
		if again := run(pool[i]); again != pool[i].solo {
			c.Violation("rebuilding and rerunning the same application gave a different outcome", map[string]interface{}{"spec": pool[i].p.Spec, "decl": DeclStr(pool[i].p), "argv": pool[i].argv, "first": pool[i].solo, "second": again}, nil)
			return
		}
		c.Inc("rebuild_equal")
		// the solo outcome itself is checked against the reference: an outcome that is stable but wrong because of what
		// an earlier application left behind in the process would otherwise pass every equality below
		if !pool[i].typed && pool[i].exit == 0 && pool[i].p.AST != nil && !FoldedEq(pool[i].p, pool[i].argv) {
			if v, _ := decideBoth(pool[i].p, BuildNFA(pool[i].p, false), BuildNFA(pool[i].p, true), pool[i].argv); !v.Unclaimed {
				if acc := strings.HasPrefix(pool[i].solo, "ACCEPT"); acc != v.Accept && (acc || pool[i].solo == "REJECT") {
					c.Violation(fmt.Sprintf("application run after others in the same process: reference accept=%v, outcome %s", v.Accept, pool[i].solo), map[string]interface{}{"spec": pool[i].p.Spec, "decl": DeclStr(pool[i].p), "argv": pool[i].argv}, nil)
					return
				}
				c.Inc("solo_agrees_with_reference")
			}
		}
	}
	// (b) permuted sequential order
	perms := 2
	if c.Tier == "thorough" {
		perms = 5
	}
	for k := 0; k < perms; k++ {
		for _, i := range c.R.Perm(len(pool)) {
			c.Eval()
			if got := run(pool[i]); got != pool[i].solo {
				c.Violation("the outcome depends on which applications ran before", map[string]interface{}{"spec": pool[i].p.Spec, "decl": DeclStr(pool[i].p), "argv": pool[i].argv, "solo": pool[i].solo, "in_sequence": got}, nil)
				return
			}
			c.Inc("sequential_equal")
		}
	}
	// (d) interleaved construction: several applications are declared first, then run in another order
	for k := 0; k < 40; k++ {
		n := 2 + c.R.Intn(3)
		var built []*drive.Built
		var prs []c20Pair
		for i := 0; i < n; i++ {
			pr := pool[c.R.Intn(len(pool))]
			built = append(built, drive.Build(mkApp(pr)))
			prs = append(prs, pr)
		}
		for _, i := range c.R.Perm(n) {
			c.Eval()
			if got := drive.OutcomeKey(prs[i].p, built[i].Run(prs[i].argv)); got != prs[i].solo {
				c.Violation("an application declared alongside others behaves differently from the same application alone", map[string]interface{}{"spec": prs[i].p.Spec, "decl": DeclStr(prs[i].p), "argv": prs[i].argv, "solo": prs[i].solo, "interleaved": got}, nil)
				return
			}
			c.Inc("interleaved_equal")
		}
	}
	// (g) one application object run on several command lines in turn: each outcome equals that of a fresh object (the
	// sequence stops once a run has given an env-backed option on the command line: the library then drops its
	// environment fallback for good, a documented side effect)
	for i := 0; i+3 < len(pool); i += 4 {
		if pool[i].typed || pool[i].p != pool[i+3].p || pool[i].exit != 0 {
			continue
		}
		app := drive.Single(pool[i].p)
		app.Shared = true
		b := drive.Build(app)
	seq:
		for rep := 0; rep < 2; rep++ {
			for k := i; k < i+4; k++ {
				o := b.Run(pool[k].argv)
				c.Eval()
				if got := drive.OutcomeKey(pool[k].p, o); got != pool[k].solo {
					c.Violation("an application object that has parsed other command lines before behaves differently from a fresh one", map[string]interface{}{"spec": pool[k].p.Spec, "decl": DeclStr(pool[k].p), "argv": pool[k].argv, "fresh": pool[k].solo, "reused": got, "earlier_on_this_object": pool[i].argv}, nil)
					return
				}
				c.Inc("reused_object_equal")
				for od, vs := range o.Bind[0].Opts {
					if od.EnvSet && len(vs) > 0 {
						break seq
					}
				}
			}
		}
	}
	// (h) the environment counts at declaration time only: an application declared while its variables are unset and run
	// after they were exported behaves like one that never saw them, and the other way round
	{
		var envPairs []c20Pair
		for _, pr := range pool {
			for _, o := range pr.p.Opts {
				if o.EnvSet && pr.exit == 0 {
					envPairs = append(envPairs, pr)
					break
				}
			}
		}
		for k := 0; k < 30 && len(envPairs) > 0; k++ {
			pr := envPairs[c.R.Intn(len(envPairs))]
			drive.UnsetPresetEnv(10)
			unsetSolo := run(pr)
			b := drive.Build(mkApp(pr))
			drive.PresetEnv(10)
			late := drive.OutcomeKey(pr.p, b.Run(pr.argv))
			b2 := drive.Build(mkApp(pr))
			drive.UnsetPresetEnv(10)
			early := drive.OutcomeKey(pr.p, b2.Run(pr.argv))
			drive.PresetEnv(10)
			c.Eval()
			c.Eval()
			if late != unsetSolo {
				c.Violation("an application declared while its environment variables were unset changed its outcome because they were exported before Run", map[string]interface{}{"spec": pr.p.Spec, "decl": DeclStr(pr.p), "argv": pr.argv, "never_set": unsetSolo, "set_after_declaration": late}, nil)
				return
			}
			if early != pr.solo {
				c.Violation("an application declared with its environment variables set changed its outcome because they were removed before Run", map[string]interface{}{"spec": pr.p.Spec, "decl": DeclStr(pr.p), "argv": pr.argv, "set_throughout": pr.solo, "unset_after_declaration": early}, nil)
				return
			}
			c.Inc("environment_changed_after_declaration_equal")
			if unsetSolo != pr.solo {
				c.Inc("environment_changed_after_declaration_where_it_matters")
			}
		}
	}
	// (k) the default error policy (ExitOnError) is the library's own: what the program did to the standard flag
	// package's command line does not leak into it
	for _, pr := range pool {
		if pr.solo != "REJECT" || pr.exit != 0 {
			continue
		}
		flag.CommandLine.Init("prog", flag.ContinueOnError)
		app := mkApp(pr)
		app.DefaultPolicy = true
		got := drive.OutcomeKey(pr.p, drive.Run(app, pr.argv))
		flag.CommandLine.Init(os.Args[0], flag.ExitOnError)
		c.Eval()
		if !strings.HasPrefix(got, "EXIT 2") {
			c.Violation("an application that does not set ErrorHandling must exit with status 2 on a usage error, whatever the flag package's own command line is set to", map[string]interface{}{"spec": pr.p.Spec, "argv": pr.argv, "outcome": got}, nil)
			return
		}
		c.Inc("default_policy_is_exit_on_error")
		break
	}
	// (e) nested and cooperating applications: an Action that builds and runs another application, and two applications
	// run concurrently whose Actions meet over an unbuffered channel, must both complete (no library-wide lock is held
	// while user code runs)
	var accepted []c20Pair
	for _, pr := range pool {
		if strings.HasPrefix(pr.solo, "ACCEPT") {
			accepted = append(accepted, pr)
		}
	}
	withIn := func(pr c20Pair, in func()) string {
		app := mkApp(pr)
		app.Root.InAction = in
		return drive.OutcomeKey(pr.p, drive.Run(app, pr.argv))
	}
	waitOr := func(what string, done chan struct{}) bool {
		for {
			select {
			case <-done:
				return true
			case <-time.After(20 * time.Second): // only decides when to look; the operations take microseconds
				buf := make([]byte, 1<<20)
				stacks := string(buf[:runtime.Stack(buf, true)])
				if where := core.BlockedInLibrary(stacks); where != "" {
					c.Abort(what + ": blocked on a lock inside the library (" + where + ")")
					return false
				}
				// slow machine, or stuck outside the library: keep waiting (the worker's stall detector has the last word)
				c.Inc("cooperation_slow_waits")
			}
		}
	}
	// (i) an application that ends badly (its help lists a sub-command whose spec is ill-formed: Run panics, the caller
	// recovers; an Action that panics; an Action that exits) leaves nothing behind: whatever runs next, accepted or
	// rejected (a rejection prints a usage message), completes with its solo outcome
	errBuf, outBuf := drive.CaptureShared()
	for k := 0; k < 10; k++ {
		var bad *drive.App
		what := ""
		switch k % 5 {
		case 4:
			bad = drive.Single(&Prog{})
			bad.Shared, bad.Version, bad.Policy = true, true, flag.ExitOnError
			what = "an application asked for its version under ExitOnError (the exit function does not return)"
		case 0, 1:
			root := &drive.Cmd{Aliases: []string{"app"}, Prog: &Prog{}}
			kid := &drive.Cmd{ID: 1, Aliases: []string{"broken"}, Prog: &Prog{Spec: []string{"[", "X", "-z", "(", "[-a", "A|"}[c.R.Intn(6)]}, Parent: root, Action: drive.Beh{Kind: drive.BehReturn}}
			root.Kids = []*drive.Cmd{kid}
			bad = &drive.App{Root: root, Shared: true}
			what = "an application whose help lists a sub-command with an ill-formed spec"
		case 2:
			bad = drive.Single(&Prog{})
			bad.Shared = true
			bad.Root.Action = drive.Beh{Kind: drive.BehPanic, PanKind: 1 + c.R.Intn(3)}
			what = "an application whose Action panics"
		default:
			bad = drive.Single(&Prog{})
			bad.Shared = true
			bad.Root.Action = drive.Beh{Kind: drive.BehExit, Code: 3}
			bad.Root.After = drive.Beh{Kind: drive.BehPanic, PanKind: 3}
			what = "an application whose Action exits and whose After panics"
		}
		badArgv := []string{}
		if k%5 == 0 {
			badArgv = []string{"--help"}
		}
		if k%5 == 4 {
			badArgv = []string{"--version"}
		}
		var ob *drive.Obs
		done := make(chan struct{})
		go func() { defer close(done); ob = drive.Run(bad, badArgv) }()
		if !waitOr(what, done) {
			return
		}
		c.Eval()
		if k%5 <= 1 && ob.SpecErr == nil {
			c.Violation(what+" did not end with a spec error raised as a panic", map[string]interface{}{"events": ob.EventStr(), "panic": fmt.Sprint(ob.Pan), "err": fmt.Sprint(ob.Err)}, nil)
			return
		}
		for n := 0; n < 4; n++ {
			pr := pool[c.R.Intn(len(pool))]
			got := ""
			done := make(chan struct{})
			go func() { defer close(done); got = run(pr) }()
			if !waitOr("an application run after "+what, done) {
				return
			}
			c.Eval()
			if got != pr.solo {
				c.Violation("an application run after "+what+" differs from its solo outcome", map[string]interface{}{"spec": pr.p.Spec, "decl": DeclStr(pr.p), "argv": pr.argv, "solo": pr.solo, "after": got}, nil)
				return
			}
			c.Inc("after_a_badly_ended_application_equal")
			if pr.solo == "REJECT" && !strings.Contains(errBuf.String(), "Usage:") {
				c.Violation("an application run after "+what+" was rejected but its usage did not reach the error stream", map[string]interface{}{"spec": pr.p.Spec, "argv": pr.argv, "stdout": truncateStr(outBuf.String(), 300)}, nil)
				return
			}
		}
		if k%5 == 4 && !strings.Contains(errBuf.String(), drive.VersionText) {
			c.Violation("the version string did not reach the error stream", map[string]interface{}{"stderr": truncateStr(errBuf.String(), 300), "stdout": truncateStr(outBuf.String(), 300)}, nil)
			return
		}
		if out := outBuf.String(); out != "" {
			c.Violation("after "+what+", text meant for the error stream went to the standard-output stream", map[string]interface{}{"stdout": truncateStr(out, 300)}, nil)
			return
		}
		errBuf, outBuf = drive.CaptureShared()
	}
	{
		// an application declared without a name stays nameless in what it prints: the name of the running binary (a
		// property of the process, not of the application) does not appear
		nameless := drive.Single(&Prog{})
		nameless.Shared = true
		nameless.Root.Aliases = []string{""}
		errBuf, _ = drive.CaptureShared()
		done := make(chan struct{})
		go func() { defer close(done); drive.Run(nameless, []string{"--not-declared"}) }()
		if !waitOr("a nameless application", done) {
			return
		}
		c.Eval()
		if self := filepath.Base(os.Args[0]); !strings.Contains(errBuf.String(), "Usage:") || strings.Contains(errBuf.String(), self) {
			c.Violation("the usage message of an application declared without a name mentions the running binary ("+self+") or is missing", map[string]interface{}{"stderr": truncateStr(errBuf.String(), 300)}, nil)
			return
		}
		c.Inc("nameless_application_stays_nameless")
	}
	drive.Quiet()
	for k := 0; k < 6 && len(accepted) >= 2; k++ {
		a, b := accepted[c.R.Intn(len(accepted))], accepted[c.R.Intn(len(accepted))]
		inner := ""
		done := make(chan struct{})
		var outer string
		go func() {
			defer close(done)
			outer = withIn(a, func() { inner = withIn(b, nil) })
		}()
		if !waitOr("an Action that builds and runs another application", done) {
			return
		}
		c.Eval()
		if outer != a.solo || inner != b.solo {
			c.Violation("nested applications do not reproduce their solo outcomes", map[string]interface{}{"outer": outer, "outer_solo": a.solo, "inner": inner, "inner_solo": b.solo}, nil)
			return
		}
		c.Inc("nested_equal")
		// rendezvous
		ch := make(chan int)
		done2 := make(chan struct{})
		var ka, kb string
		var wg2 sync.WaitGroup
		wg2.Add(2)
		go func() { defer wg2.Done(); ka = withIn(a, func() { ch <- 1 }) }()
		go func() { defer wg2.Done(); kb = withIn(b, func() { <-ch }) }()
		go func() { wg2.Wait(); close(done2) }()
		if !waitOr("two concurrent applications whose Actions wait for each other", done2) {
			return
		}
		c.Eval()
		if ka != a.solo || kb != b.solo {
			c.Violation("cooperating applications do not reproduce their solo outcomes", map[string]interface{}{"a": ka, "a_solo": a.solo, "b": kb, "b_solo": b.solo}, nil)
			return
		}
		c.Inc("rendezvous_equal")
	}
	// (a') concurrent
	var wg sync.WaitGroup
	var inflight, maxInflight, overlapped, runs int64
	var mu sync.Mutex
	var diffs []map[string]interface{}
	// (j) "cold" applications: command, option, argument and environment-variable names no application of this process
	// has used before, declared for the first time while other goroutines declare theirs (whatever the library
	// memoises per name is filled concurrently)
	cold := func(g, n int) (*drive.App, []string, *Prog) {
		tag := fmt.Sprintf("%dx%dx%d", c.Index, g, n)
		o := &OptDecl{Names: []string{"opt-" + tag}}
		x := &ArgDecl{Name: "ARG_" + strings.ToUpper(tag), Multi: true}
		kp := &Prog{Opts: []*OptDecl{o}, Args: []*ArgDecl{x}}
		root := &drive.Cmd{Aliases: []string{"app"}, Prog: &Prog{}}
		kid := &drive.Cmd{ID: 1, Aliases: []string{"cmd-" + tag}, Prog: kp, Parent: root, Action: drive.Beh{Kind: drive.BehReturn}, Before: drive.Beh{Kind: drive.BehReturn}}
		root.Kids = []*drive.Cmd{kid}
		return &drive.App{Root: root, Shared: true}, []string{"cmd-" + tag, "--opt-" + tag + "=v" + tag, "w" + tag}, kp
	}
	coldKey := func(o *drive.Obs, kp *Prog) string {
		return fmt.Sprintf("%s err=%v pan=%v %s", o.EventStr(), o.Err, o.Pan, bindStr(kp, o.Bind[1]))
	}
	type coldRun struct {
		g, n int
		key  string
	}
	var colds []coldRun
	perG := 150
	seeds := make([]int64, c20Goroutines)
	for g := range seeds {
		seeds[g] = c.R.Int63()
	}
	for g := 0; g < c20Goroutines; g++ {
		wg.Add(1)
		go func(g int) {
			defer wg.Done()
			rr := rand.New(rand.NewSource(seeds[g]))
			for n := 0; n < perG; n++ {
				if n%10 == 3 {
					app, argv, kp := cold(g, n)
					key := coldKey(drive.Run(app, argv), kp)
					mu.Lock()
					colds = append(colds, coldRun{g, n, key})
					mu.Unlock()
				}
				pr := pool[rr.Intn(len(pool))]
				cur := atomic.AddInt64(&inflight, 1)
				for {
					m := atomic.LoadInt64(&maxInflight)
					if cur <= m || atomic.CompareAndSwapInt64(&maxInflight, m, cur) {
						break
					}
				}
				if cur > 1 {
					atomic.AddInt64(&overlapped, 1)
				}
				got := run(pr)
				atomic.AddInt64(&inflight, -1)
				atomic.AddInt64(&runs, 1)
				if got != pr.solo {
					mu.Lock()
					diffs = append(diffs, map[string]interface{}{"spec": pr.p.Spec, "decl": DeclStr(pr.p), "argv": pr.argv, "solo": pr.solo, "concurrent": got})
					mu.Unlock()
				}
			}
		}(g)
	}
	wg.Wait()
	for i := int64(0); i < runs; i++ {
		c.Eval()
	}
	c.Add("concurrent_runs", int(runs))
	c.Add("concurrent_runs_overlapping", int(overlapped))
	c.Max("max_in_flight", int(maxInflight))
	for i := int64(0); i < overlapped; i++ {
		c.Nontrivial(fmt.Sprintf("%d/%d", c.Index, i))
	}
	for _, cr := range colds {
		app, argv, kp := cold(cr.g, cr.n)
		solo := coldKey(drive.Run(app, argv), kp)
		c.Eval()
		want := fmt.Sprintf("B1,ACT1,RET err=<nil> pan=<nil> %s=%q %s=%q", kp.Opts[0].Dashed()[0], []string{argv[1][strings.Index(argv[1], "=")+1:]}, kp.Args[0].Name, []string{argv[2]})
		if cr.key != solo || solo != want {
			c.Violation("an application with names new to the process, declared while others were being declared, differs from its solo outcome", map[string]interface{}{"argv": argv, "concurrent": cr.key, "solo": solo, "expected": want}, nil)
			return
		}
		c.Inc("cold_name_applications_equal")
	}
	if len(diffs) > 0 {
		c.Violation(fmt.Sprintf("%d concurrent runs differ from the solo outcome of the same application", len(diffs)), diffs[0], nil)
		return
	}
	if c.WantSample() {
		c.Sample(map[string]interface{}{"round": c.Index, "pool": len(pool), "concurrent_runs": runs, "overlapping": overlapped, "max_in_flight": maxInflight, "example": descOf(pool[1].p, pool[1].argv), "example_outcome": pool[1].solo})
	}
}
