package checks

import (
	"flag"
	"fmt"
	"math/rand"
	"os"
	"strconv"
	"strings"

	"verif/core"
	"verif/drive"
	"verif/gen"
	. "verif/refsem"
)

// ---- command trees: generation ----

func genTree(r *rand.Rand, depth int, cnt *int, parent *drive.Cmd, name string, typed bool, version bool, deep bool) *drive.Cmd {
	t := &drive.Cmd{ID: *cnt, Parent: parent}
	*cnt++
	t.Aliases = []string{name}
	for i := 0; i < r.Intn(3); i++ {
		t.Aliases = append(t.Aliases, fmt.Sprintf("%s_al%d", name, i))
	}
	if parent != nil && r.Intn(8) == 0 {
		// names are used as written, in any letter case ("Status ST")
		t.Aliases = append(t.Aliases, []string{"Cmd", "ST", "cMd"}[r.Intn(3)]+fmt.Sprint(*cnt))
		if r.Intn(2) == 0 {
			t.Aliases[0], t.Aliases[len(t.Aliases)-1] = t.Aliases[len(t.Aliases)-1], t.Aliases[0]
		}
	}
	if parent != nil && r.Intn(10) == 0 {
		// a name that starts with a dash (`Command("list -l", ...)`): still a name
		t.Aliases = append(t.Aliases, []string{"--cmd-", "-y"}[r.Intn(2)]+fmt.Sprint(*cnt))
	}
	t.Prog = gen.GenProg(r, gen.Cfg{MaxOpts: 4, Depth: 1 + r.Intn(2)})
	if r.Intn(3) == 0 {
		t.Prog.Spec = ""
		t.Prog.AST = nil
	}
	if version && parent != nil && r.Intn(3) == 0 {
		// a sub-command with its own -V/--version flag: the application's version flag only counts in first position
		t.Prog.Opts = append(t.Prog.Opts, &OptDecl{Names: []string{"V", "version"}, Flag: true})
		t.Prog.Spec = ""
		t.Prog.AST = nil
	}
	if parent != nil && r.Intn(10) == 0 {
		// a sub-command that declares -h / --help (or -h, --host as in doc.go) itself: the tokens stay help requests
		t.Prog.Opts = append(t.Prog.Opts, &OptDecl{Names: [][]string{{"h", "host"}, {"h", "help"}, {"help"}}[r.Intn(3)], Flag: r.Intn(2) == 0})
		t.Prog.Spec = ""
		t.Prog.AST = nil
	}
	if depth > 0 && r.Intn(7) == 0 && len(t.Prog.Opts) > 0 {
		// a level with options only (no positional of its own) in front of its sub-commands: the detached value of
		// one of its options is not a sub-command name and does not end the level
		t.Prog = &Prog{Opts: t.Prog.Opts}
	}
	if depth > 0 && r.Intn(6) == 0 {
		// a "command group": declares nothing of its own, only there to be traversed
		t.Prog = &Prog{}
	}
	if typed {
		for _, o := range t.Prog.Opts {
			if !o.Flag && r.Intn(2) == 0 {
				o.Int = true
			}
		}
		for _, a := range t.Prog.Args {
			if r.Intn(3) == 0 {
				a.Int = true
			}
		}
	}
	t.Before, t.Action, t.After = drive.Beh{Kind: drive.BehReturn}, drive.Beh{Kind: drive.BehReturn}, drive.Beh{Kind: drive.BehReturn}
	t.LongDesc = "LONG-" + t.Path()
	if parent != nil && r.Intn(6) == 0 {
		t.Hidden = true // hidden from the help only: addressed like any other command, any number of times
	}
	if depth > 0 {
		nk := r.Intn(4)
		if deep {
			nk = 1 + r.Intn(2) // deep trees: 1-2 sub-commands per level, down to six levels
		} else if parent == nil && r.Intn(12) == 0 {
			nk = 9 + r.Intn(4) // a wide level: more than eight sub-commands, with aliases
			depth = 1
		}
		for k := 0; k < nk; k++ {
			kid := genTree(r, depth-1, cnt, t, fmt.Sprintf("c%d", *cnt), typed, version, deep)
			if k == 0 && r.Intn(8) == 0 {
				// a sub-command that goes by the name of its parent too ("app app", "c3 c3"): names are local to a level
				kid.Aliases = append(kid.Aliases, t.Aliases[0])
			}
			t.Kids = append(t.Kids, kid)
		}
	}
	return t
}

// model of a level: the program the level must behave like (implicit spec made explicit; root: version flag declared)
func levelProg(t *drive.Cmd, version bool) *Prog {
	p := t.Prog
	if version && t.Parent == nil {
		q := *p
		q.Opts = append([]*OptDecl{{Names: strings.Fields(t.VersionOptNames()), Flag: true}}, p.Opts...)
		p = &q
	}
	return gen.ImplicitProg(p)
}

func isAliasOfKid(t *drive.Cmd, tok string) *drive.Cmd {
	for _, k := range t.Kids {
		for _, al := range k.Aliases {
			if al == tok {
				return k
			}
		}
	}
	return nil
}

// treeInvocation writes a path with random aliases and per level a command line derived from the level's spec
// (valid or mutated), never containing an alias of that level's subcommands. inject: 0 none, else mutate harder at one level
func treeInvocation(r *rand.Rand, root *drive.Cmd, version bool, mutateP int) (argv []string, levels []*drive.Cmd) {
	cur := root
	for {
		levels = append(levels, cur)
		lp := levelProg(cur, version)
		var seg []string
		if r.Intn(100) < mutateP {
			seg = gen.Mutate(r, gen.Sentence(r, lp, gen.Cfg{}))
		} else {
			seg = gen.Sentence(r, lp, gen.Cfg{})
		}
		if len(lp.Opts)+len(lp.Args) == 0 && mutateP > 0 && r.Intn(3) == 0 {
			// a level that declares nothing: any token of its own is a stray one
			seg = []string{[]string{"oops", "-x", "--oops", "-", "--oops=1", "0"}[r.Intn(6)]}
		}
		if r.Intn(4) == 0 && len(seg) > 0 {
			// a value or positional spelled like a command that is NOT a subcommand of this level (an ancestor's
			// sibling, a grandchild, the command itself): it is ordinary data here
			var foreign []string
			var walk func(t *drive.Cmd)
			walk = func(t *drive.Cmd) {
				if t.Parent != cur {
					foreign = append(foreign, t.Aliases...)
				}
				for _, k := range t.Kids {
					walk(k)
				}
			}
			walk(root)
			// ... and near misses of this level's own sub-command names: another letter case, a prefix, one more letter
			for _, k := range cur.Kids {
				for _, al := range k.Aliases {
					for _, nm := range []string{strings.ToUpper(al), al[:len(al)-1], al + "x", strings.ToUpper(al[:1]) + al[1:], " " + al, al + " ", al + "\n", "\t" + al} {
						if nm != "" && isAliasOfKid(cur, nm) == nil {
							foreign = append(foreign, nm)
						}
					}
				}
			}
			var cand []int
			for i, tok := range seg {
				if !strings.HasPrefix(tok, "-") && (i == 0 || !strings.HasPrefix(seg[i-1], "-") || strings.Contains(seg[i-1], "=")) {
					cand = append(cand, i)
				}
			}
			if len(cand) > 0 && len(foreign) > 0 {
				seg[cand[r.Intn(len(cand))]] = foreign[r.Intn(len(foreign))]
			}
		}
		ok := true
		for _, tok := range seg {
			if isAliasOfKid(cur, tok) != nil {
				ok = false
			}
		}
		if ok {
			argv = append(argv, seg...)
		}
		if len(cur.Kids) == 0 || r.Intn(5) == 0 {
			break
		}
		k := cur.Kids[r.Intn(len(cur.Kids))]
		argv = append(argv, k.Aliases[r.Intn(len(k.Aliases))])
		cur = k
	}
	if version && r.Intn(10) == 0 {
		// a first token that differs from the version flag by letter case only: an ordinary (mostly undeclared) option
		names := strings.Fields(root.VersionOptNames())
		nm := names[r.Intn(len(names))]
		alt := strings.ToUpper(nm)
		if alt == nm {
			alt = strings.ToLower(nm)
		}
		if len(nm) > 1 && r.Intn(2) == 0 {
			alt = strings.ToUpper(nm[:1]) + nm[1:]
		}
		isName := false
		for _, x := range names {
			if x == alt {
				isName = true
			}
		}
		if !isName {
			d := "--" + alt
			if len(alt) == 1 {
				d = "-" + alt
			}
			argv = append([]string{d}, argv...)
		}
	}
	return
}

// ---- expectation (DESIGN 3.5) ----

type texp struct {
	kind        string // RUN, REJECT, HELP, VERSION
	node        *drive.Cmd
	path        []*drive.Cmd
	segs        [][]string
	unclaimed   bool
	helpAfterDD bool // the line contains a help token that is data because a -- precedes it
}

func isHelp(s string) bool { return s == "-h" || s == "--help" }

func expectTree(root *drive.Cmd, argv []string, version bool) texp {
	if version && len(argv) > 0 {
		for _, d := range (&OptDecl{Names: strings.Fields(root.VersionOptNames())}).Dashed() {
			if argv[0] == d {
				return texp{kind: "VERSION", node: root}
			}
		}
	}
	cur := root
	rest := argv
	e := texp{}
	ancestorDD := false
	for {
		seg := rest
		var next *drive.Cmd
		for i, tok := range rest {
			if k := isAliasOfKid(cur, tok); k != nil {
				next = k
				seg = rest[:i]
				break
			}
		}
		hpos := -1
		for i, tok := range rest {
			if tok == "--" {
				for _, t2 := range rest[i:] {
					if isHelp(t2) {
						e.helpAfterDD = true
					}
				}
				break
			}
			if isHelp(tok) {
				hpos = i
				break
			}
		}
		if hpos >= 0 {
			if ancestorDD {
				e.unclaimed = true
			}
			if hpos < len(seg) || next == nil {
				e.kind, e.node = "HELP", cur
				return e
			}
			cur = next
			rest = rest[len(seg)+1:]
			continue
		}
		e.path = append(e.path, cur)
		e.segs = append(e.segs, seg)
		for _, tok := range seg {
			if tok == "--" {
				ancestorDD = true
			}
		}
		lp := levelProg(cur, version)
		v, _ := decideBoth(lp, BuildNFA(lp, false), BuildNFA(lp, true), seg)
		if v.Unclaimed || FoldedEq(lp, seg) {
			e.unclaimed = true
		}
		if !v.Accept {
			e.kind, e.node = "REJECT", cur
			return e
		}
		if next == nil {
			e.kind, e.node = "RUN", cur
			return e
		}
		cur = next
		rest = rest[len(seg)+1:]
	}
}

func runEvents(path []*drive.Cmd, node *drive.Cmd) string {
	var want []string
	for _, t := range path {
		want = append(want, fmt.Sprintf("B%d", t.ID))
	}
	want = append(want, fmt.Sprintf("ACT%d", node.ID))
	for i := len(path) - 1; i >= 0; i-- {
		want = append(want, fmt.Sprintf("A%d", path[i].ID))
	}
	want = append(want, "RET")
	return strings.Join(want, ",")
}

type treeDesc struct {
	Tree   string   `json:"tree"`
	Argv   []string `json:"argv"`
	Policy string   `json:"policy,omitempty"`
	Expect string   `json:"expect,omitempty"`
	Note   string   `json:"note,omitempty"`
}

func treeStr(t *drive.Cmd) string {
	var sb strings.Builder
	var rec func(t *drive.Cmd)
	rec = func(t *drive.Cmd) {
		spec := t.Prog.Spec
		if spec == "" {
			spec = "<none>"
		}
		fmt.Fprintf(&sb, "%s{decl:%s spec:%q", strings.Join(t.Aliases, "|"), DeclStr(t.Prog), spec)
		for _, k := range t.Kids {
			sb.WriteString(" ")
			rec(k)
		}
		sb.WriteString("}")
	}
	rec(t)
	return sb.String()
}

func policyName(p flag.ErrorHandling) string {
	return map[flag.ErrorHandling]string{flag.ContinueOnError: "ContinueOnError", flag.ExitOnError: "ExitOnError", flag.PanicOnError: "PanicOnError"}[p]
}

// hasErrorText: something other than blank lines precedes the usage on the error stream (the wording is not judged)
func hasErrorText(stderr string) bool {
	i := strings.Index(stderr, "Usage:")
	if i < 0 {
		i = len(stderr)
	}
	return strings.TrimSpace(stderr[:i]) != ""
}

// oneUsage: the error stream carries exactly one usage line (the rejecting / addressed command's, not also its parents')
func oneUsage(stderr string) bool {
	n := 0
	for _, l := range strings.Split(stderr, "\n") {
		if strings.HasPrefix(l, "Usage: ") {
			n++
		}
	}
	return n == 1
}

func usageOf(stderr, path string) bool {
	u := "Usage: " + path
	return strings.Contains(stderr, u+" ") || strings.Contains(stderr, u+"\n")
}

func treeFor(c *core.Ctx, tag string, per int, typed bool) (*drive.Cmd, bool) {
	ti := c.Index / per
	r := rand.New(rand.NewSource(core.Mix(c.Seed+int64(len(tag))*977+int64(tag[len(tag)-1]), ti)))
	cnt := 0
	version := r.Intn(3) == 0
	deep := r.Intn(5) == 0
	depth := 3
	if deep {
		depth = 5
	}
	root := genTree(r, depth, &cnt, nil, "app", typed, version, deep)
	if version {
		root.VersionNames = []string{"V version", "V version", "version", "V", "V version ver", "W wersion"}[r.Intn(6)]
	}
	return root, version
}

// randomPolicies gives some commands their own error policy (set in their initializer) and decides whether the
// application's policy is assigned late (after the declarations)
func randomPolicies(r *rand.Rand, app *drive.App) {
	pols := []flag.ErrorHandling{flag.ContinueOnError, flag.ExitOnError, flag.PanicOnError}
	app.PolicyLate = r.Intn(6) == 0
	var walk func(t *drive.Cmd)
	walk = func(t *drive.Cmd) {
		if t.Parent != nil && r.Intn(6) == 0 {
			p := pols[r.Intn(3)]
			t.Policy = &p
		} else {
			t.Policy = nil
		}
		for _, k := range t.Kids {
			walk(k)
		}
	}
	walk(app.Root)
}

// checkRun verifies the RUN expectation: exact event sequence, per-level bindings admitted, other levels untouched
func checkRun(c *core.Ctx, e texp, o *drive.Obs, version bool) bool {
	if o.EventStr() != runEvents(e.path, e.node) || o.Err != nil || o.Pan != nil || o.Exit != nil {
		c.Violation(fmt.Sprintf("expected exactly %s and a nil return; observed events=%s err=%v panic=%v", runEvents(e.path, e.node), o.EventStr(), o.Err, o.Pan), nil, nil)
		return false
	}
	for i, t := range e.path {
		lp := levelProg(t, version)
		b := o.Bind[t.ID]
		if version && t.Parent == nil {
			// the version flag is declared by the library itself and has no recorder: take its occurrences from the reader
			nb := Binding{Opts: map[*OptDecl][]string{}, Args: b.Args}
			for k, v := range b.Opts {
				nb.Opts[k] = v
			}
			items, _ := gen.ReadAll(lp, e.segs[i])
			for _, it := range items {
				if it.Oc != nil && it.Oc.Opt == lp.Opts[0] {
					nb.Opts[it.Oc.Opt] = append(nb.Opts[it.Oc.Opt], it.Oc.Val)
				}
			}
			b = nb
		}
		adm, un := AdmitsEither(lp, e.segs[i], b.Args, b.Opts)
		if !adm && !un {
			c.Violation(fmt.Sprintf("level %s: its variables do not hold a derivation of its own tokens %q: %s", t.Path(), e.segs[i], bindStr(lp, b)), nil, nil)
			return false
		}
	}
	// a sub-command is initialised after its ancestors' own tokens were validated and bound: its initializer already
	// sees what the Action will see (the pattern documented in doc.go: the child's initializer reads the parent's options)
	for i, t := range e.path {
		seen, ok := o.InitSeen[t.ID]
		if i == 0 || !ok {
			continue
		}
		for _, anc := range e.path[:i] {
			lp := levelProg(anc, version)
			if got, want := bindStr(lp, seen[anc.ID]), bindStr(lp, o.Bind[anc.ID]); got != want {
				c.Violation(fmt.Sprintf("the initializer of %s saw the variables of %s as %s; the Action sees %s", t.Path(), anc.Path(), got, want), nil, nil)
				return false
			}
		}
		c.Inc("initializer_observations")
	}
	for tid, b := range o.Bind {
		on := false
		for _, t := range e.path {
			if t.ID == tid {
				on = true
			}
		}
		if !on && (len(b.Opts) > 0 || len(b.Args) > 0) {
			c.Violation(fmt.Sprintf("a command that is not on the invocation path (id %d) had values bound", tid), nil, nil)
			return false
		}
	}
	return true
}

// ---- C04 ----

func init() {
	core.Register(&core.Check{
		ID:        "C04",
		Title:     "Subcommand routing runs exactly the addressed command with its own bindings",
		Technique: "runtime monitor on random command trees: event log of every Before/Action/After and per-level recording variables, judged by a routing model plus the per-level reference semantics",
		Rule: "random trees (depth<=3, fan-out<=3, 1-3 aliases per command, every level with its own options/arguments of the same names, spec generated or missing); invocation = a path written with random aliases, " +
			"per level a command line derived from that level's spec (1/3 mutated) that never spells an alias of that level. Oracle: if every level's own tokens are accepted by that level's spec exactly the hooks of the path and the " +
			"addressed Action run (once, in nesting order), each level's variables hold a derivation of its own tokens and every other command's variables are untouched; otherwise nothing runs and a non-nil error is returned. " +
			"Trees also contain command groups that declare nothing (with stray tokens), option-only levels, hidden commands, commands named like their parent, dash-leading names, names with capitals, near misses of names (case, prefix, blanks) as data, sub-commands declaring -h/--help; what each ancestor's variables held when a sub-command's initializer ran must equal what the Action sees. " +
			"On accepted invocations the commands that are only passed through have, one time in three, no Action at all (pure dispatchers). One case in ten declares a command after a first Run (late), one in ten runs a bare tree on three paths in a row on the same application object (twice). " +
			"non-trivial = path of >=2 levels or a rejected invocation; distinct by (tree, argv).",
		Assumptions: []string{"routing model of DESIGN.md 3.5; unclaimed zones of C01 per level skipped; no help/version tokens (C14)"},
		Cases:       tiered(20000, 800000),
		Floor:       tiered(2000, 80000),
		Run:         runC04,
	})
}

// c04Late: a sub-command declared on the application after it has already been run must be routable
func c04Late(c *core.Ctx) {
	root, _ := treeFor(c, "C04late", 10, false)
	first, _ := treeInvocation(c.R, root, false, 20)
	if hasHelp(first) {
		return
	}
	cnt := 1000 + c.Index
	late := genTree(c.R, 0, &cnt, nil, "latecmd", false, false, false)
	late.ID = 999
	seg := gen.Sentence(c.R, gen.ImplicitProg(late.Prog), gen.Cfg{})
	rootSeg := gen.Sentence(c.R, levelProg(root, false), gen.Cfg{})
	for _, tok := range rootSeg {
		if isAliasOfKid(root, tok) != nil {
			rootSeg = nil
		}
	}
	argv := append(append(append([]string{}, rootSeg...), late.Aliases[c.R.Intn(len(late.Aliases))]), seg...)
	if hasHelp(argv) {
		return
	}
	app := &drive.App{Root: root, Policy: flag.ContinueOnError}
	b := drive.Build(app)
	d := treeDesc{Tree: treeStr(root), Argv: argv, Note: fmt.Sprintf("after a first Run with %q, the command %s is declared on the application; then this invocation", first, treeStr(late))}
	c.Journal(d)
	b.Run(first)
	// the root's own tokens of the second invocation: none (the root must accept an empty segment for the test to be meaningful)
	b.AddKid(late)
	e := expectTree(root, argv, false)
	if e.unclaimed || e.kind != "RUN" || e.node != late {
		c.LibDone()
		c.Inc("late_not_applicable")
		return
	}
	o := b.Run(argv)
	c.LibDone()
	c.Eval()
	c.Nontrivial("late", d.Tree, fmt.Sprintf("%q", argv))
	if !checkRun(c, e, o, false) {
		return
	}
	c.Inc("late_declared_command_routed")
}

// c04Twice: a tree of commands that declare nothing of their own (re-running their initializers is harmless in the
// pinned library) is run on two different paths one after the other on the SAME application object: each run routes
// like a first run
func c04Twice(c *core.Ctx) {
	root, _ := treeFor(c, "C04twice", 10, false)
	var bare func(t *drive.Cmd)
	bare = func(t *drive.Cmd) {
		t.Prog = &Prog{}
		for _, k := range t.Kids {
			bare(k)
		}
	}
	bare(root)
	b := drive.Build(&drive.App{Root: root, Policy: flag.ContinueOnError})
	for run := 0; run < 3; run++ {
		argv, _ := treeInvocation(c.R, root, false, 0)
		if hasHelp(argv) {
			return
		}
		e := expectTree(root, argv, false)
		d := treeDesc{Tree: treeStr(root), Argv: argv, Note: fmt.Sprintf("run %d on the same application object", run+1)}
		c.Journal(d)
		o := b.Run(argv)
		c.LibDone()
		c.Eval()
		if e.unclaimed || e.kind != "RUN" {
			c.Inc("twice_not_applicable")
			return
		}
		c.Nontrivial("twice", d.Tree, fmt.Sprintf("%q", argv), fmt.Sprint(run))
		if o.EventStr() != runEvents(e.path, e.node) || o.Err != nil || o.Pan != nil || o.Exit != nil {
			c.Violation(fmt.Sprintf("run %d on the same application object: expected exactly %s and a nil return; observed events=%s err=%v panic=%v", run+1, runEvents(e.path, e.node), o.EventStr(), o.Err, o.Pan), nil, nil)
			return
		}
		if run > 0 {
			c.Inc("rerun_on_same_object_routed")
		}
	}
}

func runC04(c *core.Ctx) {
	if c.Index%10 == 9 {
		c04Late(c)
		return
	}
	if c.Index%10 == 8 {
		c04Twice(c)
		return
	}
	root, version := treeFor(c, "C04", 10, false)
	argv, levels := treeInvocation(c.R, root, version, 33)
	if hasHelp(argv) {
		return
	}
	e := expectTree(root, argv, version)
	d := treeDesc{Tree: treeStr(root), Argv: argv, Expect: e.kind}
	if version {
		d.Note = "version flag -V/--version declared on the application"
	}
	if e.unclaimed {
		c.Inc("unclaimed")
		return
	}
	if e.kind == "VERSION" {
		c.Inc("skipped_version_request") // C14
		return
	}
	if e.kind == "RUN" {
		// commands that are only passed through may have no Action at all (pure dispatchers): their own tokens are
		// validated and bound, and their hooks run, exactly as with one
		for _, t := range e.path[:len(e.path)-1] {
			if c.R.Intn(3) == 0 {
				t.Action = drive.Beh{Kind: drive.BehAbsent}
				d.Note += " no-action:" + t.Path()
				c.Inc("dispatch_only_levels")
			}
		}
	}
	c.Journal(d)
	o := drive.Run(&drive.App{Root: root, Policy: flag.ContinueOnError, Version: version}, argv)
	c.LibDone()
	c.Eval()
	if len(levels) >= 2 || e.kind == "REJECT" {
		c.Nontrivial(d.Tree, fmt.Sprintf("%q", argv))
	}
	c.Inc("expect_" + e.kind)
	c.Max("path_depth", len(levels))
	switch e.kind {
	case "RUN":
		if !checkRun(c, e, o, version) {
			return
		}
		c.Inc(fmt.Sprintf("ran_at_depth_%d", len(e.path)))
	case "REJECT":
		if o.EventStr() != "RET" || o.Err == nil || o.Pan != nil {
			c.Violation(fmt.Sprintf("the tokens of %s are not accepted by its spec: expected a usage error and no hook; observed events=%s err=%v panic=%v", e.node.Path(), o.EventStr(), o.Err, o.Pan), nil, nil)
			return
		}
		if !usageOf(o.Stderr, e.node.Path()) {
			c.Violation(fmt.Sprintf("the usage of the rejecting command %s is not on the error stream", e.node.Path()), map[string]interface{}{"stderr": truncateStr(o.Stderr, 400)}, nil)
			return
		}
	}
	if c.WantSample() && len(levels) >= 3 {
		c.Sample(d)
	}
}

func truncateStr(s string, n int) string {
	if len(s) > n {
		return s[:n]
	}
	return s
}

// ---- C07 ----

func init() {
	core.Register(&core.Check{
		ID:        "C07",
		Title:     "Rejected invocations run nothing and follow the configured error policy",
		Technique: "runtime monitor on random command trees under the three error policies: event log, exit stub, recovered panic and error stream, judged by the routing model",
		Rule: "trees of C04, half of them with typed (int) options and arguments; the three policies, set before any declaration; invocations: 60% with a mutated level (missing/extra/misordered/undeclared/malformed token, " +
			"unknown word where a subcommand could be), typed trees deliver non-numeric values to int variables, the rest valid controls; some commands set their own policy in their initializer and sometimes the application's policy is assigned after the declarations (commands declared before keep what they copied); a tenth of the cases reject two invocations in a row on the same application object. A twin run in recording mode under ContinueOnError gives the error text and, for typed trees, " +
			"the bound values from which the first non-convertible one (the rejecting level) is computed. Oracle: rejected => no Before/Action/After event, error text and 'Usage: <path of the rejecting command>' on the error stream, " +
			"then Continue: non-nil error returned / Exit: exit stub called once with 2 / Panic: panic with an error value; accepted => exact hook sequence, nil, no exit, no panic. " +
			"non-trivial = every judged invocation; distinct by (tree, argv, policy).",
		Assumptions: []string{
			"exit stub records the status and ends the goroutine with runtime.Goexit (DESIGN 2.3); a sample is replayed with the real os.Exit in child processes in the thorough tier of C05",
			"the wording of error messages is not judged: the text is taken from the ContinueOnError twin",
		},
		Cases: tiered(20000, 800000),
		Floor: tiered(2000, 80000),
		Run:   runC07,
	})
}

// c07Twice: the same application object rejects two invocations in a row: the second rejection must be reported exactly
// like the first (error, usage of the rejecting command, policy)
func c07Twice(c *core.Ctx) {
	pi := c.Index / argvPerProg
	p := progFor(c.Seed, "C07twice", pi, gen.Cfg{MaxOpts: 4})
	nfa, nfaR := BuildNFA(p, false), BuildNFA(p, true)
	var bad [][]string
	for try := 0; try < 12 && len(bad) < 2; try++ {
		argv := gen.Mutate(c.R, gen.Argv(c.R, p, gen.Cfg{}))
		if hasHelp(argv) || FoldedEq(p, argv) {
			continue
		}
		if v, _ := decideBoth(p, nfa, nfaR, argv); !v.Unclaimed && !v.Accept {
			bad = append(bad, argv)
		}
	}
	if len(bad) < 2 {
		c.Inc("twice_skipped")
		return
	}
	policy := []flag.ErrorHandling{flag.ContinueOnError, flag.ExitOnError, flag.PanicOnError}[c.R.Intn(3)]
	d := CaseDesc{Decl: DeclStr(p), Spec: p.Spec, Argv: bad[1], Note: fmt.Sprintf("second rejection by the same application object (first: %q), policy %s", bad[0], policyName(policy))}
	c.Journal(d)
	app := drive.Single(p)
	app.Policy = policy
	b := drive.Build(app)
	b.Run(bad[0])
	o := b.Run(bad[1])
	c.LibDone()
	c.Eval()
	c.Nontrivial("twice", d.Decl, d.Spec, fmt.Sprintf("%q%q", bad[0], bad[1]), policyName(policy))
	for _, ev := range o.Events {
		if ev != "RET" && !strings.HasPrefix(ev, "EXIT") {
			c.Violation(fmt.Sprintf("the second rejected invocation ran %s", ev), nil, nil)
			return
		}
	}
	if !usageOf(o.Stderr, "app") || !hasErrorText(o.Stderr) {
		c.Violation("the second rejection by the same application object does not write the error and the usage to the error stream", map[string]interface{}{"stderr": truncateStr(o.Stderr, 300)}, nil)
		return
	}
	ok := true
	switch policy {
	case flag.ContinueOnError:
		ok = o.EventStr() == "RET" && o.Err != nil && o.Pan == nil
	case flag.ExitOnError:
		ok = o.EventStr() == "EXIT2" && o.Exits == 1
	case flag.PanicOnError:
		_, isErr := o.Pan.(error)
		ok = o.EventStr() == "" && isErr
	}
	if !ok {
		c.Violation(fmt.Sprintf("second rejection: policy %s not followed: events=%s err=%v panic=%v", policyName(policy), o.EventStr(), o.Err, o.Pan), nil, nil)
		return
	}
	c.Inc("second_rejection_by_same_object_" + policyName(policy))
}

func runC07(c *core.Ctx) {
	if c.Index%10 == 9 {
		c07Twice(c)
		return
	}
	typed := (c.Index/10)%2 == 1
	root, version := treeFor(c, "C07", 10, typed)
	mut := 60
	argv, levels := treeInvocation(c.R, root, version, mut)
	if c.R.Intn(8) == 0 {
		// an unknown word where a subcommand could be
		argv = append(argv, []string{"nosuchcmd", "-y", "--nope", "c999"}[c.R.Intn(4)])
	}
	if hasHelp(argv) {
		return
	}
	policy := []flag.ErrorHandling{flag.ContinueOnError, flag.ExitOnError, flag.PanicOnError}[c.R.Intn(3)]
	e := expectTree(root, argv, version)
	d := treeDesc{Tree: treeStr(root), Argv: argv, Policy: policyName(policy)}
	if e.unclaimed {
		c.Inc("unclaimed")
		return
	}
	if e.kind == "VERSION" {
		c.Inc("skipped_version_request") // C14
		return
	}
	// twin: recording mode, ContinueOnError
	d.Note = "twin (recording types, ContinueOnError)"
	c.Journal(d)
	tw := drive.Run(&drive.App{Root: root, Policy: flag.ContinueOnError, Version: version}, argv)
	c.LibDone()
	c.Eval()
	kind, node := e.kind, e.node
	why := "spec mismatch"
	if typed {
		// first level on the path whose int variables were given a non-numeric value
		for _, t := range e.path {
			bad := false
			fb := tw.Final[t.ID]
			for od, vs := range fb.Opts {
				if od.Flag { // built-in Bool in typed mode
					for _, v := range vs {
						if _, err := strconv.ParseBool(v); err != nil {
							bad = true
						}
					}
				}
				if od.Int {
					for _, v := range vs {
						if _, err := strconv.ParseInt(v, 10, 64); err != nil {
							bad = true
						}
					}
				}
			}
			for ad, vs := range fb.Args {
				if ad.Int {
					for _, v := range vs {
						if _, err := strconv.ParseInt(v, 10, 64); err != nil {
							bad = true
						}
					}
				}
			}
			if bad {
				kind, node, why = "REJECT", t, "value not convertible"
				break
			}
			if kind == "REJECT" && t == e.node {
				break
			}
		}
	}
	app := &drive.App{Root: root, Policy: policy, Builtin: typed, Version: version}
	randomPolicies(c.R, app) // some commands set their own policy; sometimes the app's is assigned after the declarations
	d.Note, d.Expect = "", kind
	if typed && c.R.Intn(3) == 0 {
		// the integer variables are user-defined value types: the conversion error comes from the user's Set
		app.CustomInt = true
		d.Note = "integer variables declared as user-defined value types (VarOpt / VarArg)"
		c.Inc("typed_with_user_defined_values")
	}
	if kind == "REJECT" {
		policy = app.PolicyAt(node)
		d.Policy = fmt.Sprintf("%s at the rejecting command (application: %s, assigned late: %v)", policyName(policy), policyName(app.Policy), app.PolicyLate)
	}
	c.Journal(d)
	o := drive.Run(app, argv)
	d.Policy = policyName(policy)
	c.LibDone()
	c.Eval()
	c.Nontrivial(d.Tree, fmt.Sprintf("%q", argv), d.Policy)
	if kind == "RUN" {
		if typed {
			if o.EventStr() != runEvents(e.path, e.node) || o.Err != nil || o.Pan != nil || o.Exit != nil {
				c.Violation(fmt.Sprintf("accepted invocation: expected %s and nil; observed events=%s err=%v panic=%v", runEvents(e.path, e.node), o.EventStr(), o.Err, o.Pan), nil, nil)
				return
			}
		} else if !checkRun(c, e, o, version) {
			return
		}
		c.Inc("accepted_" + d.Policy)
		return
	}
	depth := 0
	for x := node; x.Parent != nil; x = x.Parent {
		depth++
	}
	c.Inc(fmt.Sprintf("rejected_%s_depth%d", d.Policy, depth))
	c.Inc("rejection_" + strings.ReplaceAll(why, " ", "_"))
	_ = levels
	for _, ev := range o.Events {
		if ev != "RET" && !strings.HasPrefix(ev, "EXIT") {
			c.Violation(fmt.Sprintf("a rejected invocation ran %s (events %s)", ev, o.EventStr()), nil, nil)
			return
		}
	}
	if !usageOf(o.Stderr, node.Path()) || !oneUsage(o.Stderr) {
		c.Violation(fmt.Sprintf("the error stream must carry the usage of the rejecting command %q, once, and no other usage", node.Path()), map[string]interface{}{"stderr": truncateStr(o.Stderr, 600)}, nil)
		return
	}
	if !typed && tw.Err != nil && !strings.Contains(o.Stderr, tw.Err.Error()) {
		c.Violation(fmt.Sprintf("the error %q is not on the error stream", tw.Err.Error()), map[string]interface{}{"stderr": truncateStr(o.Stderr, 400)}, nil)
		return
	}
	if !hasErrorText(o.Stderr) {
		c.Violation("no error message on the error stream", map[string]interface{}{"stderr": truncateStr(o.Stderr, 400)}, nil)
		return
	}
	// the error the caller gets (returned, or raised under PanicOnError) is the one that was written, character for character
	if o.Err != nil && !strings.Contains(o.Stderr, o.Err.Error()) {
		c.Violation(fmt.Sprintf("the returned error %q is not what the error stream shows", o.Err.Error()), map[string]interface{}{"stderr": truncateStr(o.Stderr, 400)}, nil)
		return
	}
	if pe, ok := o.Pan.(error); ok && !strings.Contains(o.Stderr, pe.Error()) {
		c.Violation(fmt.Sprintf("the error raised as a panic, %q, is not what the error stream shows", pe.Error()), map[string]interface{}{"stderr": truncateStr(o.Stderr, 400)}, nil)
		return
	}
	switch policy {
	case flag.ContinueOnError:
		if o.EventStr() != "RET" || o.Err == nil || o.Pan != nil || o.Exit != nil {
			c.Violation(fmt.Sprintf("ContinueOnError: expected a non-nil error; observed events=%s err=%v panic=%v", o.EventStr(), o.Err, o.Pan), nil, nil)
			return
		}
	case flag.ExitOnError:
		if o.EventStr() != "EXIT2" || o.Exits != 1 {
			c.Violation(fmt.Sprintf("ExitOnError: expected exactly exit(2); observed events=%s", o.EventStr()), nil, nil)
			return
		}
	case flag.PanicOnError:
		_, isErr := o.Pan.(error)
		if o.EventStr() != "" || !isErr {
			c.Violation(fmt.Sprintf("PanicOnError: expected a panic with the error; observed events=%s panic=%v", o.EventStr(), o.Pan), nil, nil)
			return
		}
	}
	if c.WantSample() && depth >= 1 {
		d.Note = why + " at " + node.Path()
		c.Sample(d)
	}
}

// ---- C14 ----

func init() {
	core.Register(&core.Check{
		ID:        "C14",
		Title:     "Help and version requests short-circuit everything else",
		Technique: "runtime monitor on random command trees under the three error policies with help/version tokens injected at every position, judged by the routing/help model",
		Rule: "trees of C04 (long description set on every command), optionally a declared version flag; valid or mutated invocations with -h or --help inserted at a random position (thorough: every position), " +
			"half of them with a -- inserted somewhere as well; version flag first or later. Oracle: help token not preceded by -- => the error stream contains 'Usage: <path of the command whose own tokens hold it>' and that command's long description, " +
			"no event, exit(0) under ExitOnError else nil; help token after a -- within the same command's tokens => ordinary data, outcome as the routing model predicts; version flag first => version string, no event, exit 0 / nil; " +
			"version flag elsewhere => ordinary flag. The unclaimed case (help below an ancestor whose tokens contain --) is generated and counted, not judged. non-trivial = every judged invocation with a help or version token; distinct by (tree, argv, policy).",
		Assumptions: []string{"routing model of DESIGN.md 3.5; exit stub as in C07"},
		Cases:       tiered(20000, 800000),
		Floor:       tiered(2000, 80000),
		Run:         runC14,
	})
}

func runC14(c *core.Ctx) {
	root, version := treeFor(c, "C14", 10, false)
	base, _ := treeInvocation(c.R, root, version, 25)
	policy := []flag.ErrorHandling{flag.ContinueOnError, flag.ExitOnError, flag.PanicOnError}[c.R.Intn(3)]
	withDD := c.R.Intn(2) == 0
	if withDD {
		i := c.R.Intn(len(base) + 1)
		base = append(base[:i:i], append([]string{"--"}, base[i:]...)...)
	}
	var positions []int
	if c.Tier == "thorough" {
		for i := 0; i <= len(base); i++ {
			positions = append(positions, i)
		}
	} else {
		positions = []int{c.R.Intn(len(base) + 1)}
	}
	kindOfToken := c.R.Intn(10)
	for _, pos := range positions {
		argv := append([]string{}, base...)
		tok := []string{"-h", "--help"}[c.R.Intn(2)]
		switch {
		case version && kindOfToken == 0:
			vn := (&OptDecl{Names: strings.Fields(root.VersionOptNames())}).Dashed()
			argv = append([]string{vn[c.R.Intn(len(vn))]}, argv...)
			tok = ""
		case version && kindOfToken == 1 && pos > 0:
			vn := (&OptDecl{Names: strings.Fields(root.VersionOptNames())}).Dashed()
			tok = vn[c.R.Intn(len(vn))] // not first: ordinary flag
		}
		if tok != "" {
			argv = append(argv[:pos:pos], append([]string{tok}, argv[pos:]...)...)
		}
		c14One(c, root, version, policy, argv)
	}
}

func c14One(c *core.Ctx, root *drive.Cmd, version bool, policy flag.ErrorHandling, argv []string) {
	e := expectTree(root, argv, version)
	d := treeDesc{Tree: treeStr(root), Argv: argv, Policy: policyName(policy), Expect: e.kind}
	if version {
		d.Note = "version flag -V/--version declared"
	}
	if e.unclaimed {
		c.Inc("unclaimed")
		return
	}
	c.Journal(d)
	app := &drive.App{Root: root, Policy: policy, Version: version}
	app.VersionLate = version && (c.Index/10)%3 == 1 // the version flag declared after the root's own options
	versionText := drive.VersionText
	if version {
		// the declared version string is printed as it is: also when it is empty, indented or spans several lines
		switch (c.Index / 10) % 4 {
		case 1:
			versionText = ""
			app.VersionStr = &versionText
		case 2:
			versionText = "\t app 0.9 (indented banner)\n   second line, trailing blanks   "
			app.VersionStr = &versionText
		}
	}
	randomPolicies(c.R, app)
	if c.R.Intn(6) == 0 {
		os.Setenv("COLUMNS", []string{"0", "10", "-1", "18", "80", "abc", ""}[c.R.Intn(7)]) // none of the library's business
		defer os.Unsetenv("COLUMNS")
	}
	if e.node != nil && e.kind != "RUN" {
		policy = app.PolicyAt(e.node) // help, version and rejections follow the policy of the command that decides
		d.Policy = policyName(policy)
	}
	o := drive.Run(app, argv)
	c.LibDone()
	c.Eval()
	c.Nontrivial(d.Tree, fmt.Sprintf("%q", argv), d.Policy)
	c.Inc("expect_" + e.kind + "_" + d.Policy)
	switch e.kind {
	case "HELP", "VERSION":
		want := "Usage: " + e.node.Path()
		if e.kind == "VERSION" {
			if !strings.Contains(o.Stderr, versionText) {
				c.Violation("the version string was not printed", map[string]interface{}{"stderr": truncateStr(o.Stderr, 300)}, nil)
				return
			}
		} else if !usageOf(o.Stderr, e.node.Path()) || !oneUsage(o.Stderr) || !strings.Contains(o.Stderr, "LONG-"+e.node.Path()+"\n") {
			c.Violation(fmt.Sprintf("expected the long help of %q (%s + its long description)", e.node.Path(), want), map[string]interface{}{"stderr": truncateStr(o.Stderr, 400)}, nil)
			return
		}
		if e.kind == "HELP" && hasErrorText(o.Stderr) {
			c.Violation("arguments were validated although help was requested (an error message precedes the usage)", map[string]interface{}{"stderr": truncateStr(o.Stderr, 300)}, nil)
			return
		}
		if policy == flag.ExitOnError {
			if o.EventStr() != "EXIT0" || o.Exits != 1 {
				c.Violation(fmt.Sprintf("ExitOnError: expected exactly exit(0); observed events=%s panic=%v", o.EventStr(), o.Pan), nil, nil)
				return
			}
		} else if o.EventStr() != "RET" || o.Err != nil || o.Pan != nil {
			c.Violation(fmt.Sprintf("expected a nil return and nothing run; observed events=%s err=%v panic=%v", o.EventStr(), o.Err, o.Pan), nil, nil)
			return
		}
		if c.WantSample() && e.node.Parent != nil {
			c.Sample(d)
		}
	case "RUN":
		if !checkRun(c, e, o, version) {
			return
		}
		if e.helpAfterDD {
			c.Inc("help_token_after_dd_is_data")
		}
	case "REJECT":
		for _, ev := range o.Events {
			if ev != "RET" && !strings.HasPrefix(ev, "EXIT") {
				c.Violation(fmt.Sprintf("a rejected invocation ran %s", ev), nil, nil)
				return
			}
		}
		if !usageOf(o.Stderr, e.node.Path()) || !hasErrorText(o.Stderr) {
			c.Violation(fmt.Sprintf("expected a usage error of %q", e.node.Path()), map[string]interface{}{"stderr": truncateStr(o.Stderr, 300)}, nil)
			return
		}
		ok := true
		switch policy {
		case flag.ContinueOnError:
			ok = o.EventStr() == "RET" && o.Err != nil && o.Pan == nil
		case flag.ExitOnError:
			ok = o.EventStr() == "EXIT2"
		case flag.PanicOnError:
			_, isErr := o.Pan.(error)
			ok = o.EventStr() == "" && isErr
		}
		if !ok {
			c.Violation(fmt.Sprintf("policy %s not followed: events=%s err=%v panic=%v", d.Policy, o.EventStr(), o.Err, o.Pan), nil, nil)
			return
		}
		if e.helpAfterDD {
			c.Inc("help_token_after_dd_is_data")
		}
	}
}
