// Package checks holds one workload + oracle per property.
package checks

import (
	"fmt"
	"math/rand"
	"strings"

	"verif/core"
	"verif/drive"
	"verif/gen"
	. "verif/refsem"
)

// tiered picks a size by tier
func tiered(quick, thorough int) func(string) int {
	return func(t string) int {
		if t == "thorough" {
			return thorough
		}
		return quick
	}
}

// progFor draws the program shared by the K consecutive case indices idx/K; variant selects the
// generator configuration: 0 plain, 1 spec-level --, 2 environment-backed options, 3 both
func progFor(seed int64, tag string, pi int, cfg gen.Cfg) *Prog {
	h := int64(0)
	for _, ch := range tag {
		h = h*131 + int64(ch)
	}
	r := rand.New(rand.NewSource(core.Mix(seed+h*1000003, pi)))
	return gen.GenProg(r, cfg)
}

func variantCfg(variant int, tier string) gen.Cfg {
	cfg := gen.Cfg{AllowDD: variant&1 == 1, AllowEnv: variant&2 == 2}
	switch (variant / 4) % 16 {
	case 3:
		cfg.MaxRep = 10 // many occurrences / long lines also in the quick tier
	case 7:
		cfg.Depth = 4 // deeply nested specs
		cfg.MaxOpts = 3
	}
	if tier == "thorough" {
		cfg.MaxRep = 3
	}
	return cfg
}

// DeclStr renders the declarations of a program
func DeclStr(p *Prog) string {
	var s []string
	for _, o := range p.Opts {
		x := strings.Join(o.Names, "/")
		if o.Flag {
			x += ":flag"
		}
		if o.Multi {
			x += ":multi"
		}
		if o.EnvSet {
			x += ":env"
		}
		s = append(s, x)
	}
	for _, a := range p.Args {
		x := a.Name
		if a.Int {
			x += ":int"
		}
		if a.EnvSet {
			x += ":env"
		}
		s = append(s, x)
	}
	return strings.Join(s, ",")
}

// CaseDesc is the journalled / sampled description of a (program, command line) case
type CaseDesc struct {
	Decl string   `json:"decl"`
	Spec string   `json:"spec"`
	Argv []string `json:"argv"`
	Note string   `json:"note,omitempty"`
}

func descOf(p *Prog, argv []string) CaseDesc {
	return CaseDesc{Decl: DeclStr(p), Spec: p.Spec, Argv: argv}
}

// opCount counts the spec operators of an AST (choice, optional, group, repetition, folded group, OPTIONS, --, sequencing)
func opCount(n *Node, hist map[string]int) int {
	c := 0
	switch n.K {
	case KSeq:
		if len(n.Kids) > 1 {
			c++
			hist["seq"]++
		}
	case KChoice:
		c++
		hist["choice"]++
	case KOptional:
		c++
		hist["optional"]++
	case KGroup:
		c++
		hist["group"]++
	case KRep:
		c++
		hist["rep"]++
	case KOptGroup:
		c++
		hist["folded"]++
	case KAllOpts:
		c++
		hist["OPTIONS"]++
	case KDD:
		c++
		hist["dd"]++
	case KOpt:
		hist["opt"]++
	case KArg:
		hist["arg"]++
	}
	for _, k := range n.Kids {
		c += opCount(k, hist)
	}
	return c
}

func hasHelp(argv []string) bool {
	for _, t := range argv {
		if t == "-h" || t == "--help" {
			return true
		}
	}
	return false
}

// decideBoth evaluates the reference under both readings of option groups; a disagreement is unclaimed
func decideBoth(p *Prog, nfa, nfaR *NFA, argv []string) (v Verdict, groupDiffer bool) {
	v = Decide(p, nfa, argv)
	if v.Unclaimed {
		return v, false
	}
	vr := Decide(p, nfaR, argv)
	if vr.Unclaimed || vr.Accept != v.Accept {
		v.Unclaimed = true
		return v, true
	}
	return v, false
}

func bindStr(p *Prog, b Binding) string {
	var sb strings.Builder
	for _, o := range p.Opts {
		if v, ok := b.Opts[o]; ok {
			fmt.Fprintf(&sb, "%s=%q ", o.Dashed()[0], v)
		}
	}
	for _, a := range p.Args {
		if v, ok := b.Args[a]; ok {
			fmt.Fprintf(&sb, "%s=%q ", a.Name, v)
		}
	}
	return strings.TrimSpace(sb.String())
}

// runOnceOrTwice runs the single-command program on argv. For one case in twelve (programs without env-backed
// options: an option set by the user loses its environment fallback for later runs, a documented side effect) the same
// application object is first run on another command line: acceptance must not depend on what the object parsed before.
func runOnceOrTwice(c *core.Ctx, p *Prog, argv []string, cfg gen.Cfg) *drive.Obs {
	second := c.R.Intn(12) == 0
	for _, o := range p.Opts {
		if o.EnvSet {
			second = false
		}
	}
	if !second {
		return drive.Run(drive.Single(p), argv)
	}
	drive.Quiet()
	first := gen.Argv(c.R, p, cfg)
	if hasHelp(first) {
		first = nil
	}
	b := drive.Build(drive.Single(p))
	b.Run(first)
	c.Inc("second_run_on_same_object")
	return b.Run(argv)
}
