// Package drive builds a real cli.App from a program description, runs it on its own goroutine under the
// boundary monitors (hooks, Action, exit stub, error stream, recording value types) and returns what was observed.
package drive

import (
	"bytes"
	"flag"
	"fmt"
	"io"
	"os"
	"runtime"
	"strconv"
	"strings"
	"sync"

	cli "github.com/jawher/mow.cli"

	"verif/core"

	. "verif/refsem"
)

// Behaviour of a hook
const (
	BehAbsent = iota
	BehReturn
	BehPanic
	BehExit
)

// Beh is what a Before/Action/After does
type Beh struct {
	Kind int
	Code int // exit status for BehExit
	Spin int // the hook first yields the processor this many times (a slow interceptor)
	// Deferred: the hook raises its value from a deferred call while another value (a panic for BehExit, an Exit for
	// BehPanic) is already in flight inside the same hook
	Deferred bool
	PanKind  int // what BehPanic raises (4: an error with an ExitCode method, 5: a []string): 0 *PanicValue, 1 an error value, 2 a runtime error (nil map write), 3 a string
}

// Cmd is a command of the tree
type Cmd struct {
	// EnvOnlyOpt: the command also declares an option without any name (it can only be set through its environment
	// variable); it is an option all the same
	EnvOnlyOpt bool
	ID         int
	Aliases    []string
	Prog       *Prog // Spec "" = no spec given
	Kids       []*Cmd
	Parent     *Cmd
	Before     Beh
	Action     Beh
	After      Beh
	LongDesc   string
	Hidden     bool
	// VersionNames (root only): the names given to app.Version when App.Version is set (default "V version")
	VersionNames string
	// InAction, when set, is called from inside the Action (after the snapshot): nested or cooperating applications
	InAction func()
	// Policy, when set, is assigned to the command's ErrorHandling at the start of its own initializer
	// (sub-commands declared afterwards inherit it)
	Policy *flag.ErrorHandling
}

// Path is the full command path (first aliases)
func (t *Cmd) Path() string {
	if t.Parent == nil {
		return t.Aliases[0]
	}
	return t.Parent.Path() + " " + t.Aliases[0]
}

// App describes a whole application
type App struct {
	Root    *Cmd
	Policy  flag.ErrorHandling
	Version bool // declares app.Version(<names>, VersionText)
	// VersionLate: the version flag is declared after the root's own options and arguments instead of first
	VersionLate bool
	// VersionStr, when set, is declared instead of VersionText (an empty string, an indented multi-line banner)
	VersionStr *string
	Builtin    bool // declare with the built-in Bool/String/Strings types instead of recording custom types
	// ArgsFirst: every command declares its arguments before its options
	ArgsFirst bool
	// PolicyLate: the policy is assigned to the app after all declarations instead of right after cli.App(): commands
	// declared before keep what they copied at declaration time (the default, ExitOnError)
	PolicyLate bool
	// DefaultPolicy: the application's ErrorHandling is not assigned at all (the documented default is ExitOnError)
	DefaultPolicy bool
	// SparseSetBy: one declaration in three is made without a SetByUser variable (listed in Obs.NoSetBy)
	SparseSetBy bool
	// CustomInt: integer-typed options and arguments are declared as user-defined value types (VarOpt / VarArg) whose
	// Set refuses non-integers, instead of the built-in Int / Ints types
	CustomInt bool
	Shared    bool // do not touch the package-level exit function and error stream (concurrent use)
}

// Single wraps one program into an application without subcommands
func Single(p *Prog) *App {
	return &App{Root: &Cmd{Aliases: []string{"app"}, Prog: p, Action: Beh{Kind: BehReturn}}, Policy: flag.ContinueOnError}
}

// VersionText is the version string declared by applications with App.Version set (it contains a % on purpose)
const VersionText = "ver-1.2.3 (100% go, %d %s)"

// RuntimeErrorMarker stands in PanVals for a panic raised by the Go runtime (the value itself is created by the runtime)
const RuntimeErrorMarker = "<runtime error: assignment to entry in nil map>"

// SamePanic tells whether the value Run re-raised is the one a hook raised (identity for pointers and errors)
func SamePanic(got, raised interface{}) bool {
	if raised == RuntimeErrorMarker {
		re, ok := got.(runtime.Error)
		return ok && strings.Contains(re.Error(), "assignment to entry in nil map")
	}
	if rs, ok := raised.([]string); ok {
		// an uncomparable value: the same slice (same backing array and length) must come back
		gs, ok := got.([]string)
		return ok && len(gs) == len(rs) && len(gs) > 0 && &gs[0] == &rs[0]
	}
	defer func() { recover() }()
	return got == raised
}

// ExitLikeError is an error value that, like *exec.ExitError, has an ExitCode method: it is a panic value like any
// other, not an Exit
type ExitLikeError struct{ Hook string }

func (e *ExitLikeError) Error() string { return "child failed in " + e.Hook }
func (e *ExitLikeError) ExitCode() int { return 4 }

// PanicValue is what a hook with BehPanic raises; identity is checked by C05
type PanicValue struct{ Hook string }

// Rec is the recording value type
type Rec struct {
	FlagLike bool
	Vals     []string
	Clears   int
}

func (r *Rec) Set(s string) error { r.Vals = append(r.Vals, s); return nil }
func (r *Rec) String() string     { return strings.Join(r.Vals, ",") }
func (r *Rec) IsBoolFlag() bool   { return r.FlagLike }
func (r *Rec) Clear()             { r.Vals = nil; r.Clears++ }

// SpecErr is the positioned error Run panics with for an ill-formed spec
type SpecErr struct {
	Pos   int
	Input string
	Text  string
}

// Obs is what the monitors saw
type Obs struct {
	Events  []string // B<id>, ACT<id>, A<id>, EXIT<n>, RET
	Err     error
	Exit    *int
	Exits   int
	Pan     interface{}
	SpecErr *SpecErr
	Stderr  string
	Stdout  string // what went to the library's standard-output writer (nothing in the library writes there today)
	// snapshot taken inside the Action: per node id, what the command line bound
	Bind  map[int]Binding
	SetBy map[int]map[string]bool
	// SetByAt: the same flags as seen from inside each Before / After hook, by event name (B0, A2)
	SetByAt map[string]map[int]map[string]bool
	// NoSetBy: the parameters declared without a SetByUser variable (App.SparseSetBy), per node id
	NoSetBy map[int]map[string]bool
	// InitSeen (recording mode): what the variables of each ancestor held when a sub-command's initializer ran, by
	// sub-command id then ancestor id (the documented pattern: a child's initializer reads its parent's options)
	InitSeen map[int]map[int]Binding
	// PanVals: the values raised by BehPanic hooks, by hook name (B0, ACT1, A2)
	PanVals map[string]interface{}
	Ran     int
	// Values (built-in mode): what EVERY option / argument variable holds inside the Action, by first name, per node id
	Values map[int]map[string][]string
	// Final: the recorders' content when Run ended (also on rejection / exit), per node id; recording mode only
	Final map[int]Binding
}

// EventStr joins the events
func (o *Obs) EventStr() string { return strings.Join(o.Events, ",") }

var globalMu sync.Mutex

type lockedDiscard struct{}

func (lockedDiscard) Write(b []byte) (int, error) { return len(b), nil }

// LockedBuf is a goroutine-safe buffer
type LockedBuf struct {
	mu sync.Mutex
	b  bytes.Buffer
}

func (l *LockedBuf) Write(p []byte) (int, error) {
	l.mu.Lock()
	defer l.mu.Unlock()
	return l.b.Write(p)
}

// String returns what was written so far
func (l *LockedBuf) String() string {
	l.mu.Lock()
	defer l.mu.Unlock()
	return l.b.String()
}

// CaptureShared points the library's two streams at two buffers that stay in place over any number of Shared runs (the
// harness does not touch the streams between those runs: what one application does to them is seen by the next)
func CaptureShared() (errBuf, outBuf *LockedBuf) {
	errBuf, outBuf = &LockedBuf{}, &LockedBuf{}
	cli.VerifSetStdErr(io.Writer(errBuf))
	cli.VerifSetStdOut(io.Writer(outBuf))
	return
}

// Quiet sends the error stream to a discarding writer once (for Shared runs)
func Quiet() {
	cli.VerifSetStdErr(io.Writer(lockedDiscard{}))
	cli.VerifSetStdOut(io.Writer(lockedDiscard{}))
	// a stateless exit stub usable from any number of goroutines: the status travels as a panic value to the
	// caller of Run, where it is attributed to the application that ran on that goroutine
	cli.VerifSetExiter(func(c int) { panic(&SharedExit{Code: c}) })
}

// CustomInt is a user-defined value type holding integers: Set refuses anything strconv.Atoi refuses
type CustomInt struct {
	Multi bool
	V     []int
}

func (v *CustomInt) Set(s string) error {
	n, err := strconv.Atoi(s)
	if err != nil {
		return fmt.Errorf("custom integer: %q is not a number", s)
	}
	if v.Multi {
		v.V = append(v.V, n)
	} else {
		v.V = []int{n}
	}
	return nil
}
func (v *CustomInt) String() string { return fmt.Sprint(v.V) }
func (v *CustomInt) Strs() []string {
	if !v.Multi && len(v.V) == 0 {
		return []string{"0"}
	}
	return intsStr(v.V)
}

// CustomInts is the multi-valued variant (it has Clear)
type CustomInts struct{ CustomInt }

func (v *CustomInts) Clear() { v.V = nil }

// aliasList writes the names of a command the way programs do: separated by one blank, by several, by a tab, with
// blanks around the list (names are "space separated": any run of white space separates)
func aliasList(k *Cmd) string {
	switch k.ID % 4 {
	case 1:
		return " " + strings.Join(k.Aliases, "  ") + " "
	case 2:
		return strings.Join(k.Aliases, "\t")
	}
	return strings.Join(k.Aliases, " ")
}

// SharedExit is what the shared exit stub raises
type SharedExit struct{ Code int }

func envName(id, i int, o *OptDecl) string {
	if o.Flag {
		return fmt.Sprintf("VPE_%d_%d_F", id, i)
	}
	return fmt.Sprintf("VPE_%d_%d_V", id, i)
}

// PresetEnv sets, once and for all, every variable a Shared run of a single-command app may refer to
func PresetEnv(maxOpts int) {
	for i := 0; i < maxOpts; i++ {
		os.Setenv(envName(0, i, &OptDecl{Flag: true}), "true")
		os.Setenv(envName(0, i, &OptDecl{}), "envval")
	}
}

// UnsetPresetEnv removes what PresetEnv set
func UnsetPresetEnv(maxOpts int) {
	for i := 0; i < maxOpts; i++ {
		os.Unsetenv(envName(0, i, &OptDecl{Flag: true}))
		os.Unsetenv(envName(0, i, &OptDecl{}))
	}
}

// EnvValue is the value of a set environment variable backing an option
func EnvValue(o *OptDecl) string {
	if o.EnvVal != "" {
		return o.EnvVal
	}
	if o.Flag {
		return "true"
	}
	return "envval"
}

type recs struct {
	o   map[*OptDecl]*Rec
	a   map[*ArgDecl]*Rec
	sbo map[*OptDecl]*bool
	sba map[*ArgDecl]*bool
	// builtin mode
	bo map[*OptDecl]func() []string
	ba map[*ArgDecl]func() []string
}

// buildApp declares the whole application on a fresh cli.App (environment variables backing options are set here
// unless the app is Shared) and returns it together with the recorders
func buildApp(a *App, o *Obs, setEnv *[]string) (*cli.Cli, map[int]*recs, func(c *cli.Cmd, t *Cmd)) {
	app := cli.App(a.Root.Aliases[0], "desc")
	if !a.PolicyLate && !a.DefaultPolicy {
		app.ErrorHandling = a.Policy
	}
	declVersion := func() {
		vt := VersionText
		if a.VersionStr != nil {
			vt = *a.VersionStr
		}
		app.Version(a.Root.VersionOptNames(), vt)
	}
	if a.Version && !a.VersionLate {
		declVersion()
	}
	all := map[int]*recs{}
	var mkHook func(t *Cmd, tag string, b Beh, snapshot bool) func()
	mkHook = func(t *Cmd, tag string, b Beh, snapshot bool) func() {
		id := t.ID
		if b.Kind == BehAbsent {
			return nil
		}
		name := fmt.Sprintf("%s%d", tag, id)
		return func() {
			o.Events = append(o.Events, name)
			for i := 0; i < b.Spin; i++ {
				runtime.Gosched()
			}
			if !snapshot {
				o.snapSetBy(name, all)
			}
			if snapshot {
				o.Ran++
				o.snapshot(a, all)
				if t.InAction != nil {
					t.InAction()
				}
			}
			raise := func() {
				switch b.PanKind {
				case 1:
					e := fmt.Errorf("error raised by %s", name)
					o.PanVals[name] = e
					panic(e)
				case 2:
					o.PanVals[name] = RuntimeErrorMarker
					var m map[string]int
					m[name] = 1 // runtime error: assignment to entry in nil map
				case 3:
					o.PanVals[name] = "string raised by " + name
					panic("string raised by " + name)
				case 4:
					e := &ExitLikeError{Hook: name}
					o.PanVals[name] = e
					panic(e)
				case 5:
					v := []string{"uncomparable value raised by", name}
					o.PanVals[name] = v
					panic(v)
				}
				pv := &PanicValue{Hook: name}
				o.PanVals[name] = pv
				panic(pv)
			}
			switch b.Kind {
			case BehPanic:
				if b.Deferred {
					// the value is raised by a deferred function while an Exit is already in flight: it is the most recent one
					defer raise()
					cli.Exit(177)
				}
				raise()
			case BehExit:
				if b.Deferred {
					// `defer cli.Exit(n)` in a hook that then panics: the Exit is raised last
					defer cli.Exit(b.Code)
					panic("raised before the deferred Exit of " + name)
				}
				cli.Exit(b.Code)
			}
		}
	}
	var build func(c *cli.Cmd, t *Cmd)
	build = func(c *cli.Cmd, t *Cmd) {
		if t.Policy != nil {
			c.ErrorHandling = *t.Policy
		}
		rs := &recs{o: map[*OptDecl]*Rec{}, a: map[*ArgDecl]*Rec{}, sbo: map[*OptDecl]*bool{}, sba: map[*ArgDecl]*bool{}, bo: map[*OptDecl]func() []string{}, ba: map[*ArgDecl]func() []string{}}
		all[t.ID] = rs
		declOpts := func() {
			if t.EnvOnlyOpt {
				c.String(cli.StringOpt{Name: "", EnvVar: "VPE_ENV_ONLY_OPTION", Desc: "settable through the environment only"})
			}
			for i, od := range t.Prog.Opts {
				env := ""
				if od.EnvSet {
					env = envName(t.ID, i, od)
					if !a.Shared {
						os.Setenv(env, EnvValue(od))
						*setEnv = append(*setEnv, env)
					}
				}
				sb := new(bool)
				rs.sbo[od] = sb
				sbArg := sb
				if a.SparseSetBy && (t.ID+i)%3 == 0 {
					sbArg = nil // declared without a SetByUser variable
					o.markNoSetBy(t.ID, "opt:"+od.Names[0])
				}
				name := strings.Join(od.Names, " ")
				if a.Builtin {
					ptr := (t.ID+i)%2 == 1 // every other declaration goes through the *Ptr entry point
					switch {
					case od.Int && a.CustomInt:
						if od.Multi {
							cv := &CustomInts{CustomInt{Multi: true}}
							c.Var(cli.VarOpt{Name: name, Value: cv, EnvVar: env, SetByUser: sbArg})
							rs.bo[od] = cv.Strs
						} else {
							cv := &CustomInt{}
							c.Var(cli.VarOpt{Name: name, Value: cv, EnvVar: env, SetByUser: sbArg})
							rs.bo[od] = cv.Strs
						}
					case od.Int && od.Multi:
						p := new([]int)
						if ptr {
							c.IntsPtr(p, cli.IntsOpt{Name: name, EnvVar: env, SetByUser: sbArg})
						} else {
							p = c.Ints(cli.IntsOpt{Name: name, EnvVar: env, SetByUser: sbArg})
						}
						rs.bo[od] = func() []string { return intsStr(*p) }
					case od.Int:
						p := new(int)
						if ptr {
							c.IntPtr(p, cli.IntOpt{Name: name, EnvVar: env, SetByUser: sbArg})
						} else {
							p = c.Int(cli.IntOpt{Name: name, EnvVar: env, SetByUser: sbArg})
						}
						rs.bo[od] = func() []string { return []string{fmt.Sprint(*p)} }
					case od.Flag:
						p := new(bool)
						if ptr {
							c.BoolPtr(p, cli.BoolOpt{Name: name, EnvVar: env, SetByUser: sbArg})
						} else {
							p = c.Bool(cli.BoolOpt{Name: name, EnvVar: env, SetByUser: sbArg})
						}
						rs.bo[od] = func() []string { return []string{fmt.Sprint(*p)} }
					case od.Multi:
						p := new([]string)
						if ptr {
							c.StringsPtr(p, cli.StringsOpt{Name: name, EnvVar: env, SetByUser: sbArg})
						} else {
							p = c.Strings(cli.StringsOpt{Name: name, EnvVar: env, SetByUser: sbArg})
						}
						rs.bo[od] = func() []string { return append([]string{}, *p...) }
					default:
						p := new(string)
						if ptr {
							c.StringPtr(p, cli.StringOpt{Name: name, EnvVar: env, SetByUser: sbArg})
						} else {
							p = c.String(cli.StringOpt{Name: name, EnvVar: env, SetByUser: sbArg})
						}
						rs.bo[od] = func() []string { return []string{*p} }
					}
					continue
				}
				rc := &Rec{FlagLike: od.Flag}
				rs.o[od] = rc
				c.Var(cli.VarOpt{Name: name, Value: rc, EnvVar: env, SetByUser: sbArg, HideValue: od.Hide})
			}
		}
		declArgs := func() {
			for i, ad := range t.Prog.Args {
				sb := new(bool)
				rs.sba[ad] = sb
				sbArg := sb
				if a.SparseSetBy && (t.ID+i)%3 == 1 {
					sbArg = nil
					o.markNoSetBy(t.ID, "arg:"+ad.Name)
				}
				aenv := ""
				if ad.EnvSet {
					aenv = fmt.Sprintf("VPE_%d_A%d", t.ID, i)
					if !a.Shared {
						os.Setenv(aenv, "argenv")
						*setEnv = append(*setEnv, aenv)
					}
				}
				if ad.BuiltinInt && !a.Builtin {
					c.Int(cli.IntArg{Name: ad.Name, SetByUser: sbArg, EnvVar: aenv, HideValue: ad.Hide})
					continue
				}
				if a.Builtin && ad.Int && a.CustomInt {
					cv := &CustomInts{CustomInt{Multi: true}}
					c.Var(cli.VarArg{Name: ad.Name, Value: cv, SetByUser: sbArg, EnvVar: aenv})
					rs.ba[ad] = cv.Strs
					continue
				}
				if a.Builtin && ad.Int {
					p := c.Ints(cli.IntsArg{Name: ad.Name, SetByUser: sbArg, EnvVar: aenv})
					rs.ba[ad] = func() []string { return intsStr(*p) }
					continue
				}
				if a.Builtin {
					p := c.Strings(cli.StringsArg{Name: ad.Name, SetByUser: sbArg, EnvVar: aenv})
					rs.ba[ad] = func() []string { return append([]string{}, *p...) }
					continue
				}
				rc := &Rec{FlagLike: ad.FlagLike}
				if ad.Default != "" {
					rc.Vals = []string{ad.Default} // what the library captures as the declared default
				}
				rs.a[ad] = rc
				c.Var(cli.VarArg{Name: ad.Name, Value: rc, SetByUser: sbArg, EnvVar: aenv, HideValue: ad.Hide})
			}
		}
		if a.ArgsFirst {
			declArgs()
			declOpts()
		} else {
			declOpts()
			declArgs()
		}
		// env values are Set at declaration time: only command-line values are to be recorded
		for _, rc := range rs.o {
			rc.Vals, rc.Clears = nil, 0
		}
		for _, rc := range rs.a {
			rc.Vals, rc.Clears = nil, 0
		}
		c.Spec = t.Prog.Spec
		c.LongDesc = t.LongDesc
		c.Hidden = t.Hidden
		hook := func(tag string, b Beh, snapshot bool) func() { return mkHook(t, tag, b, snapshot) }
		c.Before = hook("B", t.Before, false)
		c.Action = hook("ACT", t.Action, true)
		c.After = hook("A", t.After, false)
		for _, k := range t.Kids {
			k := k
			if k.Prog != nil && len(k.Prog.Opts)+len(k.Prog.Args) == 0 && k.Prog.Spec == "" && len(k.Kids) == 0 && k.Before.Kind == BehAbsent &&
				k.After.Kind == BehAbsent && k.Action.Kind != BehAbsent && k.Policy == nil && k.LongDesc == "" && !k.Hidden {
				// a bare leaf: declared through the ActionCommand helper
				all[k.ID] = &recs{o: map[*OptDecl]*Rec{}, a: map[*ArgDecl]*Rec{}, sbo: map[*OptDecl]*bool{}, sba: map[*ArgDecl]*bool{}, bo: map[*OptDecl]func() []string{}, ba: map[*ArgDecl]func() []string{}}
				c.Command(aliasList(k), "d", cli.ActionCommand(mkHook(k, "ACT", k.Action, true)))
				continue
			}
			c.Command(aliasList(k), "d", func(sc *cli.Cmd) {
				if !a.Builtin {
					if o.InitSeen == nil {
						o.InitSeen = map[int]map[int]Binding{}
					}
					seen := map[int]Binding{}
					for anc := k.Parent; anc != nil; anc = anc.Parent {
						if rr := all[anc.ID]; rr != nil {
							seen[anc.ID] = bindOfRecs(rr)
						}
					}
					o.InitSeen[k.ID] = seen
				}
				build(sc, k)
			})
		}
	}
	build(app.Cmd, a.Root)
	if a.Version && a.VersionLate {
		declVersion()
	}
	if a.PolicyLate {
		app.ErrorHandling = a.Policy
	}
	return app, all, build
}

// Run builds and runs the application on a fresh goroutine
func Run(a *App, argv []string) *Obs {
	o := &Obs{Bind: map[int]Binding{}, SetBy: map[int]map[string]bool{}, PanVals: map[string]interface{}{}}
	var buf, obuf bytes.Buffer
	done := make(chan struct{})
	var setEnv []string
	go func() {
		defer close(done)
		defer core.EnterLibrary()()
		if !a.Shared {
			cli.VerifSetStdErr(&buf)
			cli.VerifSetStdOut(&obuf)
			cli.VerifSetExiter(func(c int) {
				cc := c
				o.Exit = &cc
				o.Exits++
				o.Events = append(o.Events, fmt.Sprintf("EXIT%d", c))
				runtime.Goexit()
			})
		}
		defer func() {
			if v := recover(); v != nil {
				if pos, in, ok := cli.VerifParseErrorPos(v); ok {
					txt := ""
					func() {
						defer func() {
							if r := recover(); r != nil {
								txt = fmt.Sprintf("Error() panicked: %v", r)
							}
						}()
						txt = v.(error).Error()
					}()
					o.SpecErr = &SpecErr{Pos: pos, Input: in, Text: txt}
					return
				}
				o.Pan = v
			}
		}()
		app, all, _ := buildApp(a, o, &setEnv)
		defer func() { o.Final = finalBind(all) }()
		o.Err = app.Run(append([]string{a.Root.Aliases[0]}, argv...))
		o.Events = append(o.Events, "RET")
	}()
	<-done
	for _, e := range setEnv {
		os.Unsetenv(e)
	}
	o.Stderr = buf.String()
	o.Stdout = obuf.String()
	return o
}

func (o *Obs) markNoSetBy(tid int, name string) {
	if o.NoSetBy == nil {
		o.NoSetBy = map[int]map[string]bool{}
	}
	if o.NoSetBy[tid] == nil {
		o.NoSetBy[tid] = map[string]bool{}
	}
	o.NoSetBy[tid][name] = true
}

func (o *Obs) snapSetBy(ev string, all map[int]*recs) {
	if o.SetByAt == nil {
		o.SetByAt = map[string]map[int]map[string]bool{}
	}
	m := map[int]map[string]bool{}
	for tid, rr := range all {
		sb := map[string]bool{}
		for od, p := range rr.sbo {
			sb["opt:"+od.Names[0]] = *p
		}
		for ad, p := range rr.sba {
			sb["arg:"+ad.Name] = *p
		}
		m[tid] = sb
	}
	o.SetByAt[ev] = m
}

func (o *Obs) snapshot(a *App, all map[int]*recs) {
	for tid, rr := range all {
		b := Binding{Opts: map[*OptDecl][]string{}, Args: map[*ArgDecl][]string{}}
		sb := map[string]bool{}
		if a.Builtin {
			vals := map[string][]string{}
			for od, get := range rr.bo {
				vals["opt:"+od.Names[0]] = get()
				if *rr.sbo[od] {
					b.Opts[od] = get()
				}
			}
			for ad, get := range rr.ba {
				vals["arg:"+ad.Name] = get()
				if *rr.sba[ad] {
					b.Args[ad] = get()
				}
			}
			if o.Values == nil {
				o.Values = map[int]map[string][]string{}
			}
			o.Values[tid] = vals
		} else {
			for od, rc := range rr.o {
				if rc.Clears > 0 && len(rc.Vals) > 0 {
					b.Opts[od] = append([]string{}, rc.Vals...)
				}
			}
			for ad, rc := range rr.a {
				if rc.Clears > 0 && len(rc.Vals) > 0 {
					b.Args[ad] = append([]string{}, rc.Vals...)
				}
			}
		}
		for od, p := range rr.sbo {
			sb["opt:"+od.Names[0]] = *p
		}
		for ad, p := range rr.sba {
			sb["arg:"+ad.Name] = *p
		}
		o.Bind[tid] = b
		o.SetBy[tid] = sb
	}
}

func bindOfRecs(rr *recs) Binding {
	b := Binding{Opts: map[*OptDecl][]string{}, Args: map[*ArgDecl][]string{}}
	for od, rc := range rr.o {
		if rc.Clears > 0 && len(rc.Vals) > 0 {
			b.Opts[od] = append([]string{}, rc.Vals...)
		}
	}
	for ad, rc := range rr.a {
		if rc.Clears > 0 && len(rc.Vals) > 0 {
			b.Args[ad] = append([]string{}, rc.Vals...)
		}
	}
	return b
}

func finalBind(all map[int]*recs) map[int]Binding {
	res := map[int]Binding{}
	for tid, rr := range all {
		res[tid] = bindOfRecs(rr)
	}
	return res
}

func intsStr(v []int) []string {
	var r []string
	for _, x := range v {
		r = append(r, fmt.Sprint(x))
	}
	return r
}

// Accepted: the Action of the single command ran once and Run returned nil
func (o *Obs) Accepted() bool {
	return o.Ran == 1 && o.Err == nil && o.Pan == nil && o.SpecErr == nil && o.Exit == nil
}

// OutcomeKey summarises an observation of a single-command app for metamorphic comparison
func OutcomeKey(p *Prog, o *Obs) string {
	switch {
	case o.SpecErr != nil:
		return "SPECERR"
	case o.Pan != nil:
		if se, ok := o.Pan.(*SharedExit); ok {
			return fmt.Sprintf("EXIT %d after %s", se.Code, o.EventStr())
		}
		return fmt.Sprintf("PANIC %v", o.Pan)
	case o.Exit != nil:
		return fmt.Sprintf("EXIT %d", *o.Exit)
	case o.Ran > 0 && o.Err != nil, o.Ran > 1:
		return fmt.Sprintf("INCONSISTENT ran=%d err=%v", o.Ran, o.Err)
	case o.Ran == 0:
		return "REJECT"
	}
	return "ACCEPT " + o.Bind[0].Key(p)
}

// ImplGNFA compiles the spec with the real library and returns the state graph as a generic automaton over the
// abstract symbols of the reference semantics
func ImplGNFA(p *Prog) (g *GNFA, syms map[string]bool, specErr *SpecErr, pan interface{}) {
	defer func() {
		if v := recover(); v != nil {
			pan = v
		}
	}()
	app := cli.App("app", "")
	app.ErrorHandling = flag.ContinueOnError
	for _, o := range p.Opts {
		app.Var(cli.VarOpt{Name: strings.Join(o.Names, " "), Value: &Rec{FlagLike: o.Flag}})
	}
	for _, a := range p.Args {
		app.Var(cli.VarArg{Name: a.Name, Value: &Rec{}})
	}
	app.Spec = p.Spec
	states, err := cli.VerifCompile(app)
	if err != nil {
		pos, in, _ := cli.VerifParseErrorPos(err)
		return nil, nil, &SpecErr{Pos: pos, Input: in, Text: err.Error()}, nil
	}
	g = &GNFA{N: len(states), Start: 0}
	g.Eps = make([][]int, g.N)
	g.Tr = make([]map[string][]int, g.N)
	g.Final = make([]bool, g.N)
	syms = map[string]bool{}
	for s, st := range states {
		g.Final[s] = st.Terminal
		g.Tr[s] = map[string][]int{}
		for _, t := range st.Trans {
			if t.Kind == "eps" {
				g.Eps[s] = append(g.Eps[s], t.To)
				continue
			}
			sym := SymOf(t.Kind, t.Names)
			syms[sym] = true
			g.Tr[s][sym] = append(g.Tr[s][sym], t.To)
		}
	}
	return g, syms, nil, nil
}

// SpecOutcome is the result of compiling a raw spec string with fixed declarations
type SpecOutcome struct {
	OK      bool
	SpecErr *SpecErr
	Pan     interface{}
	Events  []string
}

// CompileSpec declares -a/--aa (flag; mask bit 1), -o/--out (valued; 2), X (4), Y (8), sets the spec and calls Run with no argument.
// Light-weight (no goroutine): under ContinueOnError with an empty command line nothing can call the exit function.
// With sub=true the spec is given to a subcommand "sub" reached by routing, and the root has all three hooks.
func CompileSpec(spec string, via int, declMask int) (out SpecOutcome) {
	cli.VerifSetStdErr(io.Discard)
	cli.VerifSetStdOut(io.Discard)
	defer func() {
		if v := recover(); v != nil {
			if pos, in, ok := cli.VerifParseErrorPos(v); ok {
				txt := ""
				func() {
					defer func() {
						if r := recover(); r != nil {
							txt = fmt.Sprintf("Error() panicked: %v", r)
						}
					}()
					txt = v.(error).Error()
				}()
				out.SpecErr = &SpecErr{Pos: pos, Input: in, Text: txt}
				return
			}
			out.Pan = v
		}
	}()
	app := cli.App("app", "")
	app.ErrorHandling = flag.ContinueOnError
	ev := func(n string) func() { return func() { out.Events = append(out.Events, n) } }
	decl := func(c *cli.Cmd) {
		if declMask&1 != 0 {
			c.BoolOpt("a aa", false, "")
		}
		if declMask&2 != 0 {
			c.StringOpt("o out", "", "")
		}
		if declMask&4 != 0 {
			c.StringsArg("X", nil, "")
		}
		if declMask&8 != 0 {
			c.StringsArg("Y", nil, "")
		}
		c.Spec = spec
		c.Before, c.Action, c.After = ev("B"), ev("ACT"), ev("A")
	}
	argv := []string{"app"}
	if via > 0 {
		app.Before, app.After = ev("B0"), ev("A0")
		app.Command("sub", "", decl)
		argv = append(argv, CompileVias[via]...)
	} else {
		decl(app.Cmd)
	}
	app.Run(argv)
	out.OK = true
	return
}

// CompileVias: the command lines through which the command carrying the spec under test is reached: 0 the root
// itself, 1 addressed, 2-3 its help requested (validation is skipped, the spec is compiled all the same), 4-5 the
// parent's help rendered (it lists the sub-command, which is initialised for that)
var CompileVias = [][]string{nil, {"sub"}, {"sub", "--help"}, {"sub", "tok", "-h"}, {"--help"}, {"nosuchcommand"}}

// Tokenize exposes the spec lexer through the hook
func Tokenize(spec string) ([]cli.VerifToken, int, error) { return cli.VerifTokenize(spec) }

// Built is an application that was declared but not run yet (Shared semantics: no package-level stub is touched)
type Built struct {
	a        *App
	app      *cli.Cli
	o        *Obs
	all      map[int]*recs
	build    func(c *cli.Cmd, t *Cmd)
	BuildPan interface{}
}

// AddKid declares one more sub-command on the root of an application that may already have been run
func (b *Built) AddKid(k *Cmd) {
	k.Parent = b.a.Root
	b.a.Root.Kids = append(b.a.Root.Kids, k)
	b.app.Command(aliasList(k), "d", func(sc *cli.Cmd) { b.build(sc, k) })
}

// Build declares the application now; Run runs it later. Used to interleave the construction and the execution of
// several applications (C20).
func Build(a *App) *Built {
	b := &Built{a: a, o: &Obs{Bind: map[int]Binding{}, SetBy: map[int]map[string]bool{}, PanVals: map[string]interface{}{}}}
	func() {
		defer func() { b.BuildPan = recover() }()
		var setEnv []string
		defer func() {
			for _, e := range setEnv {
				os.Unsetenv(e)
			}
		}()
		b.app, b.all, b.build = buildApp(a, b.o, &setEnv)
	}()
	return b
}

// Run runs a Built application; it may be called again on the same object (every call starts a fresh observation,
// the application object and its variables are the library's)
func (b *Built) Run(argv []string) *Obs {
	o := b.o
	*o = Obs{Bind: map[int]Binding{}, SetBy: map[int]map[string]bool{}, PanVals: map[string]interface{}{}}
	for _, rs := range b.all { // the recorders only log what this Run binds
		for _, rc := range rs.o {
			rc.Vals, rc.Clears = nil, 0
		}
		for _, rc := range rs.a {
			rc.Vals, rc.Clears = nil, 0
		}
	}
	if b.BuildPan != nil {
		o.Pan = b.BuildPan
		return o
	}
	done := make(chan struct{})
	var buf, obuf bytes.Buffer
	go func() {
		defer close(done)
		defer core.EnterLibrary()()
		if !b.a.Shared {
			cli.VerifSetStdErr(&buf)
			cli.VerifSetStdOut(&obuf)
			cli.VerifSetExiter(func(c int) {
				cc := c
				o.Exit = &cc
				o.Exits++
				o.Events = append(o.Events, fmt.Sprintf("EXIT%d", c))
				runtime.Goexit()
			})
		}
		defer func() {
			if v := recover(); v != nil {
				if pos, in, ok := cli.VerifParseErrorPos(v); ok {
					o.SpecErr = &SpecErr{Pos: pos, Input: in, Text: fmt.Sprint(v)}
					return
				}
				o.Pan = v
			}
		}()
		defer func() { o.Final = finalBind(b.all) }()
		o.Err = b.app.Run(append([]string{b.a.Root.Aliases[0]}, argv...))
		o.Events = append(o.Events, "RET")
	}()
	<-done
	o.Stderr = buf.String()
	o.Stdout = obuf.String()
	cp := *o
	return &cp
}

// PolicyAt is the error policy the library must follow for an outcome decided by command t: its own override, else
// what it inherited when it was declared
func (a *App) PolicyAt(t *Cmd) flag.ErrorHandling {
	if t.Policy != nil {
		return *t.Policy
	}
	if t.Parent == nil {
		return a.Policy
	}
	if t.Parent.Parent == nil && t.Parent.Policy == nil && a.PolicyLate {
		return flag.ExitOnError // copied from the root before the late assignment
	}
	return a.PolicyAt(t.Parent)
}

// CompileSequence runs ONE application object through a sequence of specs: before each Run the Spec field is replaced.
// declMask as in CompileSpec; with version the app declares a version flag and every Run is given "-V" as first argument.
func CompileSequence(specs []string, declMask int, version bool) (outs []SpecOutcome) {
	cli.VerifSetStdErr(io.Discard)
	app := cli.App("app", "")
	app.ErrorHandling = flag.ContinueOnError
	var events *[]string
	ev := func(n string) func() { return func() { *events = append(*events, n) } }
	if version {
		app.Version("V version", "1.0")
	}
	if declMask&1 != 0 {
		app.BoolOpt("a aa", false, "")
	}
	if declMask&2 != 0 {
		app.StringOpt("o out", "", "")
	}
	if declMask&4 != 0 {
		app.StringsArg("X", nil, "")
	}
	if declMask&8 != 0 {
		app.StringsArg("Y", nil, "")
	}
	app.Before, app.Action, app.After = ev("B"), ev("ACT"), ev("A")
	for _, spec := range specs {
		var out SpecOutcome
		events = &out.Events
		func() {
			defer func() {
				if v := recover(); v != nil {
					if pos, in, ok := cli.VerifParseErrorPos(v); ok {
						out.SpecErr = &SpecErr{Pos: pos, Input: in, Text: fmt.Sprint(v)}
						return
					}
					out.Pan = v
				}
			}()
			app.Spec = spec
			argv := []string{"app"}
			if version {
				argv = append(argv, "-V")
			}
			app.Run(argv)
			out.OK = true
		}()
		outs = append(outs, out)
	}
	return outs
}

// VersionOptNames are the names of the version flag of an application rooted at t
func (t *Cmd) VersionOptNames() string {
	if t.VersionNames != "" {
		return t.VersionNames
	}
	return "V version"
}
