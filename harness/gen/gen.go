// Package gen holds the seeded generators: programs (declarations + spec), command lines derived from a spec
// and mutated, re-spellings of a read command line, command trees.
package gen

import (
	"math/rand"
	"strings"

	. "verif/refsem"
)

// Cfg steers program generation
type Cfg struct {
	AllowDD  bool // spec-level --
	AllowEnv bool // options backed by a set environment variable
	MaxOpts  int  // default 5 (0..MaxOpts-1 options are drawn)
	Depth    int  // nesting depth of the spec, default 2
	MaxRep   int  // repetitions when deriving a sentence, default 3
	RepOneIn int  // one atom in RepOneIn gets a '...' (default 4; 2 = biased to ambiguous specs)
	OptHeavy bool // bias atoms towards options, folded groups and OPTIONS (long option runs)
}

func (c Cfg) norm() Cfg {
	if c.MaxOpts == 0 {
		c.MaxOpts = 5
	}
	if c.Depth == 0 {
		c.Depth = 2
	}
	if c.MaxRep == 0 {
		c.MaxRep = 3
	}
	if c.RepOneIn == 0 {
		c.RepOneIn = 4
	}
	return c
}

type specGen struct {
	r       *rand.Rand
	p       *Prog
	allowDD bool
	ddUsed  bool
	repIn   int
	heavy   bool
}

// atom per the grammar: (opt | folded | OPTIONS | arg | group | optional | --) rep?
func (g *specGen) atom(depth int) *Node {
	r := g.r
	var n *Node
	for try := 0; try < 50; try++ {
		c := r.Intn(100)
		if g.heavy && c < 28 && r.Intn(3) > 0 {
			c = 28 + r.Intn(40)
		}
		switch {
		case c < 28 && len(g.p.Args) > 0:
			n = &Node{K: KArg, Arg: g.p.Args[r.Intn(len(g.p.Args))]}
		case c < 55 && len(g.p.Opts) > 0 && !g.ddUsed:
			o := g.p.Opts[r.Intn(len(g.p.Opts))]
			d := o.Dashed()
			n = &Node{K: KOpt, Opt: o, Name: d[r.Intn(len(d))]}
			if r.Intn(5) == 0 {
				n.Annot = []string{"=<v al>", "=<x>", "=<a-b>", "=<[x]...|>"}[r.Intn(4)]
			}
		case c < 62 && !g.ddUsed:
			var shorts []*OptDecl
			for _, o := range g.p.Opts {
				if len(o.Names[0]) == 1 {
					shorts = append(shorts, o)
				}
			}
			if len(shorts) < 2 {
				continue
			}
			r.Shuffle(len(shorts), func(i, j int) { shorts[i], shorts[j] = shorts[j], shorts[i] })
			k := 2 + r.Intn(len(shorts)-1)
			n = &Node{K: KOptGroup, Opts: append([]*OptDecl{}, shorts[:k]...)}
		case c < 68 && len(g.p.Opts) > 0 && !g.ddUsed:
			return &Node{K: KOptional, Kids: []*Node{{K: KAllOpts}}}
		case c < 72 && g.allowDD && !g.ddUsed:
			g.ddUsed = true
			return &Node{K: KDD}
		case depth > 0 && c < 86:
			n = &Node{K: KOptional, Kids: []*Node{g.seq(depth-1, true)}}
		case depth > 0 && c >= 86:
			n = &Node{K: KGroup, Kids: []*Node{g.seq(depth-1, true)}}
		default:
			continue
		}
		break
	}
	if n == nil {
		n = &Node{K: KArg, Arg: g.p.Args[0]}
	}
	if r.Intn(g.repIn) == 0 {
		n = &Node{K: KRep, Kids: []*Node{n}}
	}
	return n
}

func (g *specGen) choice(depth int) *Node {
	n := g.atom(depth)
	if g.r.Intn(4) == 0 {
		c := &Node{K: KChoice, Kids: []*Node{n}}
		for i := 0; i < 1+g.r.Intn(2); i++ {
			c.Kids = append(c.Kids, g.atom(depth))
		}
		return c
	}
	return n
}

func (g *specGen) seq(depth int, req bool) *Node {
	k := g.r.Intn(4)
	if req && k == 0 {
		k = 1
	}
	s := &Node{K: KSeq}
	for i := 0; i < k; i++ {
		s.Kids = append(s.Kids, g.choice(depth))
	}
	return s
}

// OptPool is the pool option declarations are drawn from (never h/help, never V/version)
func OptPool() []*OptDecl {
	return []*OptDecl{
		{Names: []string{"a", "aa"}, Flag: true},
		{Names: []string{"b"}, Flag: true},
		{Names: []string{"c", "cc"}, Flag: true},
		{Names: []string{"o", "out"}},
		{Names: []string{"p"}, Multi: true},
		{Names: []string{"long"}, Multi: true},
		{Names: []string{"q", "qq"}},
		{Names: []string{"n", "dry-run", "N"}, Flag: true},
		{Names: []string{"e", "e_1", "E"}, Multi: true},
		{Names: []string{"i"}, Flag: true},
		{Names: []string{"f", "force"}, Flag: true},
		{Names: []string{"a-rather-long_option-name-with-2-digits-and_under_scores", "L"}},
		{Names: []string{"m", "many", "M", "many-names", "mm"}, Flag: true},
		{Names: []string{"T", "Tag-Name"}}, // names are case-sensitive, long ones too
	}
}

// Prog draws declarations and a spec
func GenProg(r *rand.Rand, cfg Cfg) *Prog {
	cfg = cfg.norm()
	p := &Prog{}
	pool := OptPool()
	r.Shuffle(len(pool), func(i, j int) { pool[i], pool[j] = pool[j], pool[i] })
	no := r.Intn(cfg.MaxOpts)
	for _, o := range pool[:no] {
		if cfg.AllowEnv && r.Intn(4) == 0 {
			o.EnvSet = true
		}
		p.Opts = append(p.Opts, o)
	}
	apool := []*ArgDecl{{Name: "X", Multi: true}, {Name: "Y", Multi: true}, {Name: "Z_2", Multi: true}}
	na := 1 + r.Intn(3)
	p.Args = apool[:na]
	if r.Intn(12) == 0 {
		// a wide program: (almost) every option of the pool declared, simple spec (the search stays cheap)
		p.Opts = nil
		for _, o := range pool[:8+r.Intn(len(pool)-7)] {
			if cfg.AllowEnv && r.Intn(5) == 0 {
				o.EnvSet = true
			}
			p.Opts = append(p.Opts, o)
		}
		p.Args = []*ArgDecl{{Name: "A_RATHER_LONG_ARGUMENT_NAME_42", Multi: true}, apool[1]}
		x, y := &Node{K: KArg, Arg: p.Args[0]}, &Node{K: KArg, Arg: p.Args[1]}
		opts := &Node{K: KOptional, Kids: []*Node{{K: KAllOpts}}}
		switch r.Intn(3) {
		case 0:
			p.AST = &Node{K: KSeq, Kids: []*Node{opts, {K: KRep, Kids: []*Node{x}}}}
		case 1:
			p.AST = &Node{K: KSeq, Kids: []*Node{opts, x, {K: KOptional, Kids: []*Node{y}}}}
		default:
			p.AST = &Node{K: KSeq, Kids: []*Node{x, opts, {K: KOptional, Kids: []*Node{{K: KRep, Kids: []*Node{y}}}}}}
		}
		p.Spec = p.AST.String()
		return p
	}
	g := &specGen{r: r, p: p, allowDD: cfg.AllowDD, repIn: cfg.RepOneIn, heavy: cfg.OptHeavy}
	p.AST = g.seq(cfg.Depth, true)
	p.Spec = p.AST.String()
	return p
}

// TinyProg draws a very small program over the names a, aa, c, cc. The same names are grouped into options in two
// ways (variant 0: "a aa" and "c cc" are one option each; variant 1: four separate options), so that byte-identical spec
// strings with different meanings occur in the same process.
func TinyProg(r *rand.Rand) *Prog {
	p := &Prog{}
	if r.Intn(2) == 0 {
		p.Opts = []*OptDecl{{Names: []string{"a", "aa"}, Flag: r.Intn(2) == 0}, {Names: []string{"c", "cc"}, Flag: true}}
	} else {
		p.Opts = []*OptDecl{{Names: []string{"a"}, Flag: true}, {Names: []string{"aa"}, Flag: r.Intn(2) == 0}, {Names: []string{"c"}, Flag: true}, {Names: []string{"cc"}}}
	}
	x := &ArgDecl{Name: "X", Multi: true}
	p.Args = []*ArgDecl{x}
	byName := func(n string) *Node {
		o := p.OptByDashed(n)
		return &Node{K: KOpt, Opt: o, Name: n}
	}
	names := []string{"-a", "--aa", "-c", "--cc"}
	pick := func() *Node { return byName(names[r.Intn(len(names))]) }
	var ast *Node
	switch r.Intn(6) {
	case 0:
		ast = &Node{K: KSeq, Kids: []*Node{pick()}}
	case 1:
		ast = &Node{K: KSeq, Kids: []*Node{{K: KOptional, Kids: []*Node{pick()}}, {K: KArg, Arg: x}}}
	case 2:
		ast = &Node{K: KSeq, Kids: []*Node{pick(), {K: KOptional, Kids: []*Node{pick()}}}}
	case 3:
		ast = &Node{K: KSeq, Kids: []*Node{{K: KChoice, Kids: []*Node{pick(), pick()}}}}
	case 4:
		ast = &Node{K: KSeq, Kids: []*Node{{K: KOptional, Kids: []*Node{byName("-a")}}, {K: KOptional, Kids: []*Node{byName("--aa")}}}}
	default:
		ast = &Node{K: KSeq, Kids: []*Node{{K: KRep, Kids: []*Node{pick()}}, {K: KOptional, Kids: []*Node{{K: KArg, Arg: x}}}}}
	}
	p.AST = ast
	p.Spec = ast.String()
	return p
}

// AltProg draws another spec over the same declarations: its sentences are near-misses for the original spec
func AltProg(r *rand.Rand, p *Prog, cfg Cfg) *Prog {
	cfg = cfg.norm()
	q := &Prog{Opts: p.Opts, Args: p.Args}
	g := &specGen{r: r, p: q, allowDD: cfg.AllowDD, repIn: cfg.RepOneIn, heavy: cfg.OptHeavy}
	q.AST = g.seq(cfg.Depth, true)
	q.Spec = q.AST.String()
	return q
}

// ImplicitProg returns the program with the spec a spec-less command must behave like: [OPTIONS] ARG1 ARG2 ...
func ImplicitProg(p *Prog) *Prog {
	if p.Spec != "" {
		return p
	}
	q := *p
	s := &Node{K: KSeq}
	if len(p.Opts) > 0 {
		s.Kids = append(s.Kids, &Node{K: KOptional, Kids: []*Node{{K: KAllOpts}}})
	}
	for _, a := range p.Args {
		s.Kids = append(s.Kids, &Node{K: KArg, Arg: a})
	}
	q.AST = s
	q.Spec = s.String()
	return &q
}

// ---- sentences ----

type sym struct {
	opt *OptDecl
	val string
	pos string
	dd  bool
}

// LongValue is longer than any plausible fixed-size buffer or key prefix
var LongValue = "a-token-of-about-three-hundred-bytes-" + strings.Repeat("0123456789", 27)

// Vals are the values given to valued options; Poss the positional tokens
var Vals = []string{"v1", "v2", "x", "7", "a=b", "v-1", "a b", "é", "=", "x--", "=x", "0", "true", "+5", "50%", "a\tb", "日本語", "0x1F",
	"a-value-that-is-longer-than-sixty-four-bytes-0123456789-0123456789-0123456789-0123456789", "08", "010", "9223372036854775808", "TRUE", "100%", "$HOME", "caf\xe9", "\"v\"", "\"a b\"", "—",
	"a-value-of-about-two-hundred-bytes-" + strings.Repeat("0123456789", 17),
	// values spelled like the letters of help / version / declared options: attached to a short option they must stay values
	"hello", "h", "help", "Version", "abo", "fi",
	// blanks and commas are characters of a value like any other, whatever the spelling
	" v ", "a,b", "a, b", " "}
var Poss = []string{"p1", "p2", "q", "3", "-", "p1", "x=y", "é", "+1", "%s", "tab\there", "語", "—", "\"q\"", "help", "h", "", "true", "false",
	"a-positional-that-is-longer-than-sixty-four-bytes-0123456789-0123456789-0123456789-0123456789"}

func derive(r *rand.Rand, p *Prog, n *Node, out *[]sym, budget *int, maxRep int) {
	if *budget <= 0 {
		return
	}
	switch n.K {
	case KSeq:
		for _, k := range n.Kids {
			derive(r, p, k, out, budget, maxRep)
		}
	case KChoice:
		derive(r, p, n.Kids[r.Intn(len(n.Kids))], out, budget, maxRep)
	case KOptional:
		if r.Intn(3) > 0 {
			derive(r, p, n.Kids[0], out, budget, maxRep)
		}
	case KGroup:
		derive(r, p, n.Kids[0], out, budget, maxRep)
	case KRep:
		k := 1 + r.Intn(maxRep)
		for i := 0; i < k; i++ {
			derive(r, p, n.Kids[0], out, budget, maxRep)
		}
	case KOpt:
		*budget--
		*out = append(*out, sym{opt: n.Opt, val: Vals[r.Intn(len(Vals))]})
	case KOptGroup, KAllOpts:
		opts := n.Opts
		if n.K == KAllOpts {
			opts = p.Opts
		}
		if len(opts) == 0 {
			return
		}
		if r.Intn(8) == 0 {
			// every option of the group once (many distinct options on one line)
			for _, i := range r.Perm(len(opts)) {
				*out = append(*out, sym{opt: opts[i], val: Vals[r.Intn(len(Vals))]})
			}
			*budget -= 3
			return
		}
		k := 1 + r.Intn(3)
		for i := 0; i < k; i++ {
			*budget--
			*out = append(*out, sym{opt: opts[r.Intn(len(opts))], val: Vals[r.Intn(len(Vals))]})
		}
	case KArg:
		*budget--
		*out = append(*out, sym{pos: Poss[r.Intn(len(Poss))]})
	case KDD:
		*out = append(*out, sym{dd: true})
	}
}

func pickName(r *rand.Rand, o *OptDecl) string {
	d := o.Dashed()
	return d[r.Intn(len(d))]
}

// isFlagCluster: token is a dash followed only by letters that are short flags of p
func isFlagCluster(p *Prog, t string) bool {
	if len(t) < 2 || t[0] != '-' || t[1] == '-' {
		return false
	}
	for i := 1; i < len(t); i++ {
		o := p.OptByDashed("-" + t[i:i+1])
		if o == nil || !o.Flag {
			return false
		}
	}
	return true
}

// spell turns symbols into tokens using random documented spellings; folds adjacent short options sometimes
func spell(r *rand.Rand, p *Prog, syms []sym) []string {
	var out []string
	for _, s := range syms {
		switch {
		case s.dd:
			if r.Intn(2) == 0 {
				out = append(out, "--")
			}
		case s.opt != nil:
			name := pickName(r, s.opt)
			fold := len(name) == 2 && len(out) > 0 && r.Intn(2) == 0 && isFlagCluster(p, out[len(out)-1])
			if s.opt.Flag {
				switch r.Intn(6) {
				case 0:
					out = append(out, name+"=true")
				default:
					if fold {
						out[len(out)-1] += name[1:]
					} else {
						out = append(out, name)
					}
				}
			} else {
				switch r.Intn(3) {
				case 0:
					out = append(out, name+"="+s.val)
				case 1:
					if len(name) == 2 {
						if fold {
							out[len(out)-1] += name[1:] + s.val
						} else {
							out = append(out, name+s.val)
						}
					} else {
						out = append(out, name, s.val)
					}
				default:
					if fold {
						out[len(out)-1] += name[1:]
						out = append(out, s.val)
					} else {
						out = append(out, name, s.val)
					}
				}
			}
		default:
			out = append(out, s.pos)
		}
	}
	return out
}

// Junk are tokens inserted by mutation: undeclared and malformed options, odd strings
var Junk = []string{"--", "-", "-z", "--zz", "-a", "-b", "-o", "--out", "p9", "-o=", "--out=", "-az", "--aa=false", "-ab=v", "-oa", "", " ", "---", "-=", "--=x", "-o=-x", "--out=--", "-o", "-x", "--aa=", "-a=", "-a=false", "-ba", "-abo", "-abox", "-p", "-p-1", "-q=", "--long", "--long=a,b", "é", "-é", "--a", "-aa", "--aa=true=x", "--zz=v", "-z=v", "--dry-run", "--dry", "-nN", "-e", "--e_1=", "-E7", "-1", "--out", "\t", "-\x00", "-5", "-0", "-.5", "-1e3", "-5", "-inf", "+x", "%d", "-%", "—", "–"}

// Mutate applies 0-2 random edits
func Mutate(r *rand.Rand, argv []string) []string {
	a := append([]string{}, argv...)
	n := r.Intn(3)
	for k := 0; k < n; k++ {
		switch r.Intn(6) {
		case 0:
			if len(a) > 0 {
				i := r.Intn(len(a))
				a = append(a[:i], a[i+1:]...)
			}
		case 1:
			i := r.Intn(len(a) + 1)
			j := Junk[r.Intn(len(Junk))]
			a = append(a[:i], append([]string{j}, a[i:]...)...)
		case 2:
			if len(a) > 0 {
				i := r.Intn(len(a))
				a = append(a[:i], append([]string{a[i]}, a[i:]...)...)
			}
		case 3:
			if len(a) > 1 {
				i := r.Intn(len(a) - 1)
				a[i], a[i+1] = a[i+1], a[i]
			}
		case 4:
			i := r.Intn(len(a) + 1)
			a = append(a[:i], append([]string{"--"}, a[i:]...)...)
		case 5:
			// a dash-prefixed number, or a lone dash, right after a dash-prefixed token: never a detached value
			var cand []int
			for i, t := range a {
				if len(t) > 1 && t[0] == '-' && t != "--" && !strings.Contains(t, "=") {
					cand = append(cand, i)
				}
			}
			if len(cand) > 0 {
				i := cand[r.Intn(len(cand))] + 1
				a = append(a[:i], append([]string{[]string{"-5", "-0", "-.5", "-1e3", "-", "-"}[r.Intn(6)]}, a[i:]...)...)
			}
		}
	}
	return a
}

// Sentence derives a command line from the spec (valid unless an option run is shuffled across a group boundary,
// which the oracle decides anyway) without mutation
func Sentence(r *rand.Rand, p *Prog, cfg Cfg) []string {
	cfg = cfg.norm()
	var syms []sym
	budget := 8
	if cfg.MaxRep > 3 {
		budget = 8 + 2*cfg.MaxRep
	}
	derive(r, p, p.AST, &syms, &budget, cfg.MaxRep)
	if r.Intn(10) == 0 {
		// a very long value or positional early on the line (anything keyed on a prefix of the line must still tell
		// the rest apart)
		for k := range syms {
			if syms[k].opt != nil && !syms[k].opt.Flag {
				syms[k].val = LongValue
				break
			}
			if syms[k].opt == nil && !syms[k].dd {
				syms[k].pos = LongValue
				break
			}
		}
	}
	i := 0
	for i < len(syms) {
		j := i
		for j < len(syms) && syms[j].opt != nil {
			j++
		}
		if j-i > 1 && r.Intn(2) == 0 {
			seg := syms[i:j]
			r.Shuffle(len(seg), func(x, y int) { seg[x], seg[y] = seg[y], seg[x] })
		}
		if j == i {
			j++
		}
		i = j
	}
	return spell(r, p, syms)
}

// Argv derives a command line and mutates it with probability 1/2
func Argv(r *rand.Rand, p *Prog, cfg Cfg) []string {
	argv := Sentence(r, p, cfg)
	if r.Intn(2) == 0 {
		argv = Mutate(r, argv)
	}
	return argv
}

// ---- reading and re-spelling (C09-C11) ----

// Item is an option occurrence or a positional of the readable prefix
type Item struct {
	Oc  *Occ
	Pos string
}

// ReadAll reads argv (reference semantics 3.2) up to the first "--" or malformed token; returns the items and the
// index where reading stopped
func ReadAll(p *Prog, argv []string) ([]Item, int) {
	var items []Item
	i := 0
	for i < len(argv) {
		run, j := ReadRun(p, argv, i)
		for k := range run {
			oc := run[k]
			items = append(items, Item{Oc: &oc})
		}
		if j >= len(argv) {
			return items, j
		}
		t := argv[j]
		if t == "--" {
			return items, j
		}
		if strings.HasPrefix(t, "-") && t != "-" {
			return items, j
		}
		items = append(items, Item{Pos: t})
		i = j + 1
	}
	return items, i
}

func okSep(v string) bool { return v != "" && !strings.HasPrefix(v, "-") }
func okAtt(v string) bool { return v != "" && !strings.HasPrefix(v, "=") }

func shortLong(r *rand.Rand, o *OptDecl) (short, long string) {
	var ss, ls []string
	for _, d := range o.Dashed() {
		if len(d) == 2 {
			ss = append(ss, d)
		} else {
			ls = append(ls, d)
		}
	}
	if len(ss) > 0 {
		short = ss[r.Intn(len(ss))]
	}
	if len(ls) > 0 {
		long = ls[r.Intn(len(ls))]
	}
	return
}

// Render writes items with random admissible spellings (C10's interchangeable forms). fold allows folding
// adjacent short options into one token.
func Render(r *rand.Rand, items []Item, fold bool, forms map[string]int) []string {
	var out []string
	canFold := false
	note := func(f string) {
		if forms != nil {
			forms[f]++
		}
	}
	for _, it := range items {
		if it.Oc == nil {
			out = append(out, it.Pos)
			canFold = false
			continue
		}
		o := it.Oc.Opt
		v := it.Oc.Val
		short, long := shortLong(r, o)
		doFold := fold && canFold && r.Intn(2) == 0
		if o.Flag {
			var fs []string
			if v == "true" {
				if short != "" {
					fs = append(fs, "s", "s=")
				}
				if long != "" {
					fs = append(fs, "l", "l=")
				}
			} else {
				if short != "" {
					fs = append(fs, "s=")
				}
				if long != "" {
					fs = append(fs, "l=")
				}
			}
			f := fs[r.Intn(len(fs))]
			switch f {
			case "s":
				if doFold {
					out[len(out)-1] += short[1:]
					note("flag-folded")
				} else {
					out = append(out, short)
					note("flag-short")
				}
				canFold = true
			case "s=":
				out = append(out, short+"="+v)
				note("flag-short=")
				canFold = false
			case "l":
				out = append(out, long)
				note("flag-long")
				canFold = false
			case "l=":
				out = append(out, long+"="+v)
				note("flag-long=")
				canFold = false
			}
			continue
		}
		var fs []string
		if short != "" {
			fs = append(fs, "s=")
			if okSep(v) {
				fs = append(fs, "s v")
			}
			if okAtt(v) {
				fs = append(fs, "sv")
			}
		}
		if long != "" {
			fs = append(fs, "l=")
			if okSep(v) {
				fs = append(fs, "l v")
			}
		}
		switch fs[r.Intn(len(fs))] {
		case "s=":
			out = append(out, short+"="+v)
			note("val-short=")
		case "s v":
			if doFold {
				out[len(out)-1] += short[1:]
				out = append(out, v)
				note("val-folded-sep")
			} else {
				out = append(out, short, v)
				note("val-short-sep")
			}
		case "sv":
			if doFold {
				out[len(out)-1] += short[1:] + v
				note("val-folded-attached")
			} else {
				out = append(out, short+v)
				note("val-short-attached")
			}
		case "l=":
			out = append(out, long+"="+v)
			note("val-long=")
		case "l v":
			out = append(out, long, v)
			note("val-long-sep")
		}
		canFold = false
	}
	return out
}

// Respellable: every valued occurrence has a non-empty value (the forms of C10 cannot carry an empty one)
func Respellable(items []Item) bool {
	for _, it := range items {
		if it.Oc != nil && !it.Oc.Opt.Flag && it.Oc.Val == "" {
			return false
		}
	}
	return true
}
