package core

import (
	"encoding/binary"
	"encoding/json"
	"flag"
	"fmt"
	"math/rand"
	"os"
	"runtime"
	"runtime/debug"
	"runtime/metrics"
	"strings"
	"sync/atomic"
	"syscall"
	"time"
)

// worker is the per-process state of an isolated worker
type worker struct {
	jf        *os.File
	caseStart atomic.Int64 // CPU time (ns) of the worker's main thread when the library was last entered from it (-1: not inside)
	mainTid   int          // the worker's main goroutine is pinned to this thread
	casePos   atomic.Int64
	caseIdx   atomic.Int64
	caseWall  atomic.Int64 // unix nanos at case start
	budget    time.Duration
	pos       int
}

func cpuNow() int64 {
	var ru syscall.Rusage
	if err := syscall.Getrusage(syscall.RUSAGE_SELF, &ru); err != nil {
		return 0
	}
	return ru.Utime.Nano() + ru.Stime.Nano()
}

const journalHeader = 48

// journal overwrites the single-slot journal with the case about to be executed. No fsync: the failure model is
// a crash of this process, which the page cache survives.
func (w *worker) journal(idx, sub int, b []byte) {
	if w.jf == nil {
		return
	}
	buf := make([]byte, 0, journalHeader+len(b))
	h := fmt.Sprintf("%d %d %d %d", w.pos, idx, sub, len(b))
	buf = append(buf, fmt.Sprintf("%-*s\n", journalHeader-1, h)...)
	buf = append(buf, b...)
	w.jf.WriteAt(buf, 0)
}

// ReadJournal returns the last journalled case of a worker
func ReadJournal(path string) (pos, idx, sub int, payload []byte, ok bool) {
	b, err := os.ReadFile(path)
	if err != nil || len(b) < journalHeader {
		return 0, 0, 0, nil, false
	}
	var n int
	if _, err := fmt.Sscanf(string(b[:journalHeader]), "%d %d %d %d", &pos, &idx, &sub, &n); err != nil {
		return 0, 0, 0, nil, false
	}
	if journalHeader+n > len(b) {
		n = len(b) - journalHeader
	}
	return pos, idx, sub, b[journalHeader : journalHeader+n], true
}

// BlockedInLibrary looks at a dump of all goroutines for one that waits for a lock (mutex, rwmutex, semaphore, condition)
// taken by code of the library under test: the innermost frame outside runtime / sync / internal belongs to mow.cli
func BlockedInLibrary(dump string) string {
	for _, g := range strings.Split(dump, "\n\n") {
		lines := strings.Split(g, "\n")
		if len(lines) < 3 || !strings.HasPrefix(lines[0], "goroutine ") {
			continue
		}
		h := lines[0]
		if !(strings.Contains(h, "[sync.Mutex.Lock") || strings.Contains(h, "[sync.RWMutex.") || strings.Contains(h, "[semacquire") || strings.Contains(h, "[sync.Cond.Wait")) {
			continue
		}
		for i := 1; i < len(lines); i += 2 {
			f := lines[i]
			if strings.HasPrefix(f, "runtime.") || strings.HasPrefix(f, "sync.") || strings.HasPrefix(f, "internal/") {
				continue
			}
			// (the linker escapes the dot of the import path in symbol names: github.com/jawher/mow%2ecli)
			if strings.HasPrefix(f, "github.com/jawher/mow.cli") || strings.HasPrefix(f, "github.com/jawher/mow%2ecli") {
				return h + " " + f
			}
			break
		}
	}
	return ""
}

func (w *worker) watchdog(memLimit uint64) {
	sample := []metrics.Sample{{Name: "/memory/classes/heap/objects:bytes"}}
	var lastProbeWall, lastProbeCPU int64
	for {
		time.Sleep(50 * time.Millisecond)
		// a case that has been running for 45 s of wall time while the whole process used less than half a second of
		// CPU over the last 15 s: if a goroutine waits for a lock inside the library, nothing is left to release it
		if now := time.Now().UnixNano(); now-w.caseWall.Load() > int64(45*time.Second) && w.caseWall.Load() > 0 {
			if lastProbeWall == 0 || lastProbeWall < w.caseWall.Load() {
				lastProbeWall, lastProbeCPU = now, cpuNow()
			} else if now-lastProbeWall > int64(15*time.Second) {
				used := cpuNow() - lastProbeCPU
				lastProbeWall, lastProbeCPU = now, cpuNow()
				if used < int64(500*time.Millisecond) {
					buf := make([]byte, 8<<20)
					if where := BlockedInLibrary(string(buf[:runtime.Stack(buf, true)])); where != "" {
						fmt.Fprintf(os.Stderr, "ABORT the process stopped making progress: a goroutine waits for a lock inside the library that nothing will release (%s)\n", where)
						os.Exit(6)
					}
				}
			}
		}
		// order matters: the CPU clock is read BEFORE the start mark. Read the other way round, a monitor goroutine that
		// is descheduled between the two reads (load average of 100 on 16 cores: for seconds) would charge everything
		// the worker did in the meantime - many later cases - to the case whose mark it had loaded
		nowCPU := threadCPU(w.mainTid)
		if !threadClock {
			nowCPU = cpuNow()
		}
		start := w.caseStart.Load()
		used := int64(0)
		if start >= 0 && nowCPU >= 0 && nowCPU-start > int64(w.budget) && w.caseStart.Load() == start {
			used = nowCPU - start // library code running on the worker's own thread (in-process checks)
		} else {
			used = overBudget(int64(w.budget)) // library code running on a goroutine of its own (drive.Run)
		}
		if used > 0 {
			fmt.Fprintf(os.Stderr, "BUDGET pos=%d index=%d cpu_ms=%d\n", w.casePos.Load(), w.caseIdx.Load(), used/1e6)
			// where the time went: CPU classes of the runtime and the stacks of all goroutines
			cs := []metrics.Sample{{Name: "/cpu/classes/gc/total:cpu-seconds"}, {Name: "/cpu/classes/gc/mark/idle:cpu-seconds"}, {Name: "/cpu/classes/user:cpu-seconds"}, {Name: "/cpu/classes/total:cpu-seconds"}, {Name: "/gc/cycles/total:gc-cycles"}, {Name: "/sched/gomaxprocs:threads"}}
			metrics.Read(cs)
			for _, x := range cs {
				switch x.Value.Kind() {
				case metrics.KindFloat64:
					fmt.Fprintf(os.Stderr, "  %s = %.3f\n", x.Name, x.Value.Float64())
				case metrics.KindUint64:
					fmt.Fprintf(os.Stderr, "  %s = %d\n", x.Name, x.Value.Uint64())
				}
			}
			fmt.Fprintf(os.Stderr, "  process cpu now %d ms, wall since case start %d ms\n", cpuNow()/1e6, (time.Now().UnixNano()-w.caseWall.Load())/1e6)
			buf := make([]byte, 1<<20)
			os.Stderr.Write(buf[:runtime.Stack(buf, true)])
			os.Exit(3)
		}
		metrics.Read(sample)
		if sample[0].Value.Kind() == metrics.KindUint64 && sample[0].Value.Uint64() > memLimit {
			fmt.Fprintf(os.Stderr, "MEMORY pos=%d index=%d heap=%d\n", w.casePos.Load(), w.caseIdx.Load(), sample[0].Value.Uint64())
			os.Exit(4)
		}
		if cw := w.caseWall.Load(); cw > 0 && time.Now().UnixNano()-cw > int64(10*time.Minute) {
			// not a verdict: a case that neither finishes nor burns CPU means the machine (or the harness) is stuck
			fmt.Fprintf(os.Stderr, "STALL pos=%d index=%d\n", w.casePos.Load(), w.caseIdx.Load())
			os.Exit(5)
		}
	}
}

// sequence of case indices handled by a shard: shard 0 first runs the pinned cases (-1, -2, ...)
func shardSeq(ck *Check, tier string, shard, nshards int) []int {
	var seq []int
	if shard == 0 {
		for k := range ck.Pinned {
			seq = append(seq, -1-k)
		}
	}
	n := ck.Cases(tier)
	for i := shard; i < n; i += nshards {
		seq = append(seq, i)
	}
	return seq
}

// RunCase executes one case index in this process
func RunCase(ck *Check, agg *Agg, w *worker, seed int64, tier string, idx int, replay bool) {
	ctx := &Ctx{Check: ck, Seed: seed, Tier: tier, Index: idx, R: rand.New(rand.NewSource(Mix(seed, idx))), agg: agg, w: w, Replay: replay}
	cpu0 := cpuNow()
	if w != nil {
		w.caseIdx.Store(int64(idx))
		w.casePos.Store(int64(w.pos))
		w.caseWall.Store(time.Now().UnixNano())
		w.caseStart.Store(-1) // the clock starts at the first Journal call
	}
	func() {
		defer func() {
			if v := recover(); v != nil {
				ctx.Violation(fmt.Sprintf("a panic escaped the case: %v", v), map[string]interface{}{"stack": string(debug.Stack())}, nil)
			}
		}()
		if idx < 0 {
			ck.Pinned[-1-idx](ctx)
		} else {
			ck.Run(ctx)
		}
	}()
	if w != nil {
		w.caseStart.Store(-1)
	}
	if ms := (cpuNow() - cpu0) / 1e6; ms > agg.MaxCPUms {
		agg.MaxCPUms = ms
	}
	agg.CasesDone++
}

// WorkerMain is the entry point of "vcheck worker"
func WorkerMain(args []string) int {
	fs := flag.NewFlagSet("worker", flag.ExitOnError)
	id := fs.String("check", "", "")
	tier := fs.String("tier", "quick", "")
	seed := fs.Int64("seed", 1, "")
	shard := fs.Int("shard", 0, "")
	nshards := fs.Int("nshards", 1, "")
	from := fs.Int("pos", 0, "position in the shard's sequence to start from")
	dir := fs.String("dir", "", "")
	attempt := fs.Int("attempt", 0, "")
	known := fs.String("known", "", "")
	fs.Parse(args)
	ck := Lookup(*id)
	if ck == nil {
		fmt.Fprintln(os.Stderr, "unknown check", *id)
		return 64
	}
	if err := LoadKnown(*known); err != nil {
		fmt.Fprintln(os.Stderr, err)
		return 64
	}
	debug.SetMaxStack(64 << 20)
	// the cases run on this goroutine: pin it, so that "library code entered from the worker's main goroutine" has a
	// thread CPU clock of its own
	runtime.LockOSThread()
	w := &worker{budget: ck.BudgetCPU, mainTid: syscall.Gettid()}
	if !ck.Race {
		// the collector is kept out of the way: an allocating library call would otherwise be made to "assist" in marking
		// the worker's whole heap - the harness's hash sets and reference caches - and on an oversubscribed machine, where
		// the background workers do not get scheduled, that assist work (charged to the library's thread) was seen to turn
		// 0.1 s of parsing into 5 s. With a soft limit of 1.5 GiB most workers never collect at all; the heap watchdog
		// (3 GiB of live objects) still catches a runaway allocation.
		debug.SetGCPercent(-1)
		debug.SetMemoryLimit(1536 << 20)
		threadClock = true
		runtime.GOMAXPROCS(4) // one case at a time: no use for 16 Ps, whose idle GC workers only add to the machine's load
	}
	if w.budget == 0 {
		w.budget = 20 * time.Second
	}
	if raceEnabled {
		// process-wide clock (see libclock.go): 16 goroutines inside the library burn 16 CPU-seconds per second when they
		// hang, so 300 CPU-seconds are reached in 20 s of wall time; the margin is for what the collector's idle workers
		// add on an oversubscribed machine during the sequential phases of a round (typical round: 4 CPU-seconds)
		w.budget *= 60
	}
	w.caseStart.Store(-1)
	jf, err := os.OpenFile(fmt.Sprintf("%s/journal.%d", *dir, *shard), os.O_CREATE|os.O_RDWR|os.O_TRUNC, 0o644)
	if err != nil {
		fmt.Fprintln(os.Stderr, err)
		return 64
	}
	w.jf = jf
	w.caseWall.Store(time.Now().UnixNano()) // before the monitor starts: a zero mark would read as a stall of 50 years
	go w.watchdog(3 << 30)
	agg := newAgg()
	agg.Tier = *tier
	seq := shardSeq(ck, *tier, *shard, *nshards)
	for p := *from; p < len(seq); p++ {
		w.pos = p
		RunCase(ck, agg, w, *seed, *tier, seq[p], false)
	}
	// results
	agg.Distinct = int64(len(agg.hashes))
	hb := make([]byte, 0, 8*len(agg.hashes))
	for h := range agg.hashes {
		hb = binary.LittleEndian.AppendUint64(hb, h)
	}
	if err := os.WriteFile(fmt.Sprintf("%s/hashes.%d.%d", *dir, *shard, *attempt), hb, 0o644); err != nil {
		fmt.Fprintln(os.Stderr, err)
		return 64
	}
	rb, _ := json.Marshal(agg)
	if err := os.WriteFile(fmt.Sprintf("%s/result.%d.%d.json", *dir, *shard, *attempt), rb, 0o644); err != nil {
		fmt.Fprintln(os.Stderr, err)
		return 64
	}
	_ = runtime.NumCPU
	return 0
}
