//go:build race

package core

const raceEnabled = true
