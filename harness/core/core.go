// Package core is the execution engine shared by all checks: case scheduling over isolated worker
// processes, per-case journal, CPU/stack/heap watchdogs, known-findings matching, evidence and replay files.
package core

import (
	"encoding/json"
	"fmt"
	"hash/fnv"
	"math/rand"
	"os"
	"sort"
	"strings"
	"time"
)

// Check is one property's workload + oracle.
type Check struct {
	ID          string
	Title       string
	Technique   string
	Rule        string // how cases are generated and what makes one non-trivial / distinct
	Assumptions []string
	// Cases returns the number of case indices for a tier; indices 0..n-1 are spread over the workers
	Cases func(tier string) int
	// Floor is the minimum number of distinct non-trivial cases below which a run is inconclusive
	Floor func(tier string) int
	// Run executes case c.Index: generate, journal, execute the library, judge
	Run func(c *Ctx)
	// Pinned cases (known-finding witnesses, regression witnesses); executed by shard 0 before the others, index -1-k
	Pinned []func(c *Ctx)
	// Exhaustive reports whether the tier enumerates a finite space completely
	Exhaustive func(tier string) bool
	// Race: the checker must be built with the race detector
	Race bool
	// BudgetCPU per case (default 5s)
	BudgetCPU time.Duration
	// Workers overrides the number of worker processes (0 = number of CPUs)
	Workers int
	// Finish lets the check add derived figures to the evidence (parent side) or fail the run as inconclusive
	Finish func(a *Agg) (inconclusive string)
}

var registry = map[string]*Check{}

// Register adds a check to the registry
func Register(c *Check) {
	if _, dup := registry[c.ID]; dup {
		panic("duplicate check " + c.ID)
	}
	registry[c.ID] = c
}

// Lookup returns a registered check
func Lookup(id string) *Check { return registry[id] }

// IDs lists registered checks
func IDs() []string {
	var r []string
	for k := range registry {
		r = append(r, k)
	}
	sort.Strings(r)
	return r
}

// Violation is one refuting observation
type Violation struct {
	Property string                 `json:"property"`
	Seed     int64                  `json:"seed"`
	Tier     string                 `json:"tier"`
	Index    int                    `json:"index"`
	Sub      int                    `json:"sub"`
	Message  string                 `json:"message"`
	Case     json.RawMessage        `json:"case,omitempty"`
	Detail   map[string]interface{} `json:"detail,omitempty"`
	Sig      map[string]string      `json:"signature,omitempty"`
	Finding  string                 `json:"finding,omitempty"`
}

// Agg is what a worker accumulates and what the parent merges
type Agg struct {
	Counters   map[string]int64  `json:"counters"`
	Maxima     map[string]int64  `json:"maxima"`
	Samples    []json.RawMessage `json:"samples"`
	Violations []Violation       `json:"violations"`
	Known      map[string]int64  `json:"known"`
	KnownDesc  map[string]string `json:"known_desc"`
	Evals      int64             `json:"evals"`
	CasesDone  int64             `json:"cases_done"`
	MaxCPUms   int64             `json:"max_cpu_ms"`
	Distinct   int64             `json:"distinct"`
	hashes     map[uint64]struct{}
	TotalViol  int64                  `json:"total_violations"`
	Tier       string                 `json:"tier"`
	Extra      map[string]interface{} `json:"extra,omitempty"`
}

func newAgg() *Agg {
	return &Agg{Counters: map[string]int64{}, Maxima: map[string]int64{}, Known: map[string]int64{}, KnownDesc: map[string]string{}, hashes: map[uint64]struct{}{}}
}

const maxSamples = 6
const maxViolationsKept = 20

// Ctx is handed to Check.Run for one case
type Ctx struct {
	Check  *Check
	Seed   int64
	Tier   string
	Index  int
	R      *rand.Rand
	Replay bool // verbose re-execution of one case

	agg      *Agg
	w        *worker
	caseJSON []byte
	sub      int
}

// Mix derives a per-case seed
func Mix(seed int64, idx int) int64 {
	h := fnv.New64a()
	fmt.Fprintf(h, "%d/%d", seed, idx)
	return int64(h.Sum64() & 0x7fffffffffffffff)
}

// Journal records the case about to be executed (before the library is entered): it is what a crash or a
// budget overrun is attributed to, and what a violation's replay file shows.
func (c *Ctx) Journal(desc interface{}) {
	b, err := json.Marshal(desc)
	if err != nil {
		b = []byte(fmt.Sprintf("%q", fmt.Sprint(desc)))
	}
	c.caseJSON = b
	c.sub++
	if c.w != nil {
		c.w.journal(c.Index, c.sub, b)
		// the CPU budget is counted from here: from the moment the library is about to be entered
		if threadClock {
			c.w.caseStart.Store(threadCPU(c.w.mainTid))
		} else {
			c.w.caseStart.Store(cpuNow())
		}
	}
	if c.Replay {
		fmt.Printf("case %d.%d: %s\n", c.Index, c.sub, b)
	}
}

// LibDone tells the watchdog that the library has returned: CPU spent afterwards (reference model, oracle) does not
// count towards the per-case budget, which is about the library only. The next Journal call starts the clock again.
func (c *Ctx) LibDone() {
	if c.w != nil {
		c.w.caseStart.Store(-1)
	}
}

// Abort reports a violation after which this worker process cannot be used any more (e.g. a lock inside the library is
// held forever): the process exits at once with a status the parent turns into a violation of the journalled case.
func (c *Ctx) Abort(msg string) {
	if c.w == nil {
		fmt.Printf("VIOLATED (process must stop): %s\n", msg)
		c.agg.TotalViol++
		return
	}
	fmt.Fprintf(os.Stderr, "ABORT %s\n", msg)
	os.Exit(6)
}

// Eval counts one evaluation (one execution of the library judged by the oracle)
func (c *Ctx) Eval() { c.agg.Evals++ }

// Inc increments a histogram counter
func (c *Ctx) Inc(key string) { c.agg.Counters[key]++ }

// Add adds to a histogram counter
func (c *Ctx) Add(key string, n int) { c.agg.Counters[key] += int64(n) }

// Max records a maximum
func (c *Ctx) Max(key string, v int) {
	if int64(v) > c.agg.Maxima[key] {
		c.agg.Maxima[key] = int64(v)
	}
}

// Nontrivial registers a case that satisfies the check's non-triviality rule; distinctness is by the hash of parts
func (c *Ctx) Nontrivial(parts ...string) {
	h := fnv.New64a()
	for _, p := range parts {
		h.Write([]byte(p))
		h.Write([]byte{0})
	}
	c.agg.hashes[h.Sum64()] = struct{}{}
}

// Sample keeps a few written-out cases for the evidence file
func (c *Ctx) Sample(desc interface{}) {
	if len(c.agg.Samples) >= maxSamples {
		return
	}
	b, err := json.Marshal(desc)
	if err == nil {
		c.agg.Samples = append(c.agg.Samples, b)
	}
}

// WantSample tells whether another sample is still wanted (avoids building descriptions for nothing)
func (c *Ctx) WantSample() bool { return len(c.agg.Samples) < maxSamples }

// Violation reports a refuting observation for the current case. sig is the signature matched against the
// known-findings file; nil means "can never be a known finding".
func (c *Ctx) Violation(msg string, detail map[string]interface{}, sig map[string]string) {
	v := Violation{Property: c.Check.ID, Seed: c.Seed, Tier: c.Tier, Index: c.Index, Sub: c.sub, Message: msg, Case: c.caseJSON, Detail: detail, Sig: sig}
	if sig != nil {
		if id, what := matchKnown(c.Check.ID, sig); id != "" {
			c.agg.Known[id]++
			c.agg.KnownDesc[id] = what
			if c.Replay {
				fmt.Printf("KNOWN-FINDING %s: %s\n", id, msg)
			}
			return
		}
	}
	c.agg.TotalViol++
	if len(c.agg.Violations) < maxViolationsKept {
		c.agg.Violations = append(c.agg.Violations, v)
	}
	if c.Replay {
		b, _ := json.MarshalIndent(v, "", "  ")
		fmt.Printf("VIOLATED: %s\n", b)
	}
}

// ---- known findings ----

type knownEntry struct {
	Property string
	ID       string
	Match    map[string]string
	What     string
}

var knownEntries []knownEntry

// LoadKnown parses KNOWN_FINDINGS.txt: lines "known: property=<id> id=<fid> match=<json object> :: <what fails>".
// "fixed:" lines are documentation only and suppress nothing.
func LoadKnown(path string) error {
	knownEntries = nil
	b, err := os.ReadFile(path)
	if err != nil {
		if os.IsNotExist(err) {
			return nil
		}
		return err
	}
	for ln, line := range strings.Split(string(b), "\n") {
		line = strings.TrimSpace(line)
		if !strings.HasPrefix(line, "known:") {
			continue
		}
		rest := strings.TrimSpace(strings.TrimPrefix(line, "known:"))
		parts := strings.SplitN(rest, "::", 2)
		what := ""
		if len(parts) == 2 {
			what = strings.TrimSpace(parts[1])
		}
		e := knownEntry{What: what}
		head := parts[0]
		mi := strings.Index(head, "match=")
		if mi < 0 {
			return fmt.Errorf("KNOWN_FINDINGS line %d: no match=", ln+1)
		}
		if err := json.Unmarshal([]byte(strings.TrimSpace(head[mi+6:])), &e.Match); err != nil {
			return fmt.Errorf("KNOWN_FINDINGS line %d: %v", ln+1, err)
		}
		for _, f := range strings.Fields(head[:mi]) {
			if strings.HasPrefix(f, "property=") {
				e.Property = f[9:]
			}
			if strings.HasPrefix(f, "id=") {
				e.ID = f[3:]
			}
		}
		if e.Property == "" || e.ID == "" || len(e.Match) == 0 {
			return fmt.Errorf("KNOWN_FINDINGS line %d: property, id and a non-empty match are required", ln+1)
		}
		knownEntries = append(knownEntries, e)
	}
	return nil
}

// matchKnown: every field of the predicate must be present in the signature with one of the listed ("a|b") values
func matchKnown(prop string, sig map[string]string) (string, string) {
	for _, e := range knownEntries {
		if e.Property != prop {
			continue
		}
		ok := true
		for k, want := range e.Match {
			got, present := sig[k]
			if !present {
				ok = false
				break
			}
			hit := false
			for _, alt := range strings.Split(want, "|") {
				if alt == got {
					hit = true
				}
			}
			if !hit {
				ok = false
				break
			}
		}
		if ok {
			return e.ID, e.What
		}
	}
	return "", ""
}

// KnownFor lists the known-finding ids recorded for a property
func KnownFor(prop string) []string {
	var r []string
	for _, e := range knownEntries {
		if e.Property == prop {
			r = append(r, e.ID)
		}
	}
	return r
}

// Children are auxiliary entry points ("vcheck child <name> ...") used by checks that need a real child process
var Children = map[string]func(args []string) int{}
