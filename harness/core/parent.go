package core

import (
	"bytes"
	"encoding/binary"
	"encoding/json"
	"fmt"
	"os"
	"os/exec"
	"path/filepath"
	"runtime"
	"sort"
	"strconv"
	"strings"
	"sync"
	"time"
)

// Root is the directory holding evidence/, replays/ and KNOWN_FINDINGS.txt (VERIF_ROOT, default /verif)
func Root() string {
	if r := os.Getenv("VERIF_ROOT"); r != "" {
		return r
	}
	return "/verif"
}

// OutRoot is where evidence/ and replays/ are written (VERIF_OUT; default Root()). The self-test points it elsewhere
// so that runs against mutated scratch trees never overwrite the evidence of /repo.
func OutRoot() string {
	if r := os.Getenv("VERIF_OUT"); r != "" {
		return r
	}
	return Root()
}

type shardOutcome struct {
	aggs     []*Agg
	crashes  []Violation
	stalled  bool
	why      string // why the shard is inconclusive
	gaveUp   bool
	hashFile []string
}

func runShard(self string, ck *Check, tier string, seed int64, shard, nshards int, dir string, deadline time.Time) shardOutcome {
	var out shardOutcome
	pos := 0
	seq := shardSeq(ck, tier, shard, nshards)
	for attempt := 0; ; attempt++ {
		if pos >= len(seq) {
			return out
		}
		if attempt > 12 {
			out.gaveUp = true
			return out
		}
		logPath := fmt.Sprintf("%s/log.%d.%d", dir, shard, attempt)
		lf, _ := os.Create(logPath)
		cmd := exec.Command(self, "worker", "-check", ck.ID, "-tier", tier, "-seed", strconv.FormatInt(seed, 10), "-shard", strconv.Itoa(shard),
			"-nshards", strconv.Itoa(nshards), "-pos", strconv.Itoa(pos), "-dir", dir, "-attempt", strconv.Itoa(attempt), "-known", filepath.Join(Root(), "KNOWN_FINDINGS.txt"))
		cmd.Stdout = lf
		cmd.Stderr = lf
		cmd.Env = os.Environ()
		if os.Getenv("VERIF_COVER") == "1" {
			os.MkdirAll(dir+"/cov", 0o755)
			cmd.Env = append(cmd.Env, "GOCOVERDIR="+dir+"/cov")
		}
		if ck.Race {
			cmd.Env = append(cmd.Env, fmt.Sprintf("GORACE=halt_on_error=0 log_path=%s/race.%d.%d", dir, shard, attempt))
		}
		if err := cmd.Start(); err != nil {
			lf.Close()
			out.why = fmt.Sprintf("shard %d: the worker could not be started: %v", shard, err)
			out.stalled = true
			return out
		}
		done := make(chan error, 1)
		go func() { done <- cmd.Wait() }()
		var err error
		select {
		case err = <-done:
		case <-time.After(time.Until(deadline)):
			cmd.Process.Kill()
			<-done
			lf.Close()
			out.why = fmt.Sprintf("shard %d: the wall-clock limit of the whole run was reached", shard)
			out.stalled = true
			return out
		}
		lf.Close()
		if err == nil {
			rb, rerr := os.ReadFile(fmt.Sprintf("%s/result.%d.%d.json", dir, shard, attempt))
			a := newAgg()
			if rerr != nil || json.Unmarshal(rb, a) != nil {
				out.why = fmt.Sprintf("shard %d: the worker ended normally but its result file cannot be read (%v)", shard, rerr)
				out.stalled = true
				return out
			}
			out.aggs = append(out.aggs, a)
			out.hashFile = append(out.hashFile, fmt.Sprintf("%s/hashes.%d.%d", dir, shard, attempt))
			return out
		}
		// the worker died: attribute it to the journalled case
		code := -1
		if ee, ok := err.(*exec.ExitError); ok {
			code = ee.ExitCode()
		}
		logb, _ := os.ReadFile(logPath)
		if code == 5 || code == 64 {
			tail := string(logb)
			if len(tail) > 600 {
				tail = tail[len(tail)-600:]
			}
			out.why = fmt.Sprintf("shard %d: worker exit status %d (5: a case made no progress for 10 minutes of wall time; 64: harness error): %s", shard, code, strings.TrimSpace(tail))
			out.stalled = true
			return out
		}
		jpos, jidx, jsub, payload, ok := ReadJournal(fmt.Sprintf("%s/journal.%d", dir, shard))
		kind := "worker process died (fatal runtime error)"
		switch code {
		case 3:
			kind = "per-case CPU budget exceeded (hang or blow-up)"
		case 4:
			kind = "heap limit exceeded"
		case 6:
			attempt += 3 // each of these costs a minute of waiting: four of them per shard are enough
			kind = "the check had to stop the worker"
			for _, l := range strings.Split(string(logb), "\n") {
				if strings.HasPrefix(l, "ABORT ") {
					kind = strings.TrimPrefix(l, "ABORT ")
				}
			}
		}
		tail := string(logb)
		if len(tail) > 3000 {
			tail = tail[:1500] + "\n...\n" + tail[len(tail)-1500:]
		}
		v := Violation{Property: ck.ID, Seed: seed, Tier: tier, Message: kind, Detail: map[string]interface{}{"exit_code": code, "worker_output": tail}}
		if ok && jpos >= pos {
			v.Index, v.Sub, v.Case = jidx, jsub, payload
			pos = jpos + 1
		} else {
			v.Index = seq[pos]
			v.Message += " before the case was journalled"
			pos++
		}
		out.crashes = append(out.crashes, v)
	}
}

// RunMain is the entry point of "vcheck run <id>"; returns the process exit code
func RunMain(id, tier string, seed int64) int {
	ck := Lookup(id)
	if ck == nil {
		fmt.Fprintln(os.Stderr, "unknown check", id)
		return 64
	}
	if ck.Race && !raceEnabled {
		fmt.Fprintln(os.Stderr, "check", id, "needs a -race build")
		return 64
	}
	if err := LoadKnown(filepath.Join(Root(), "KNOWN_FINDINGS.txt")); err != nil {
		fmt.Fprintln(os.Stderr, err)
		return 64
	}
	t0 := time.Now()
	self, err := os.Executable()
	if err != nil {
		fmt.Fprintln(os.Stderr, err)
		return 64
	}
	base := os.Getenv("VERIF_WORKDIR")
	if base == "" {
		base = filepath.Join(Root(), ".build")
	}
	os.MkdirAll(base, 0o755)
	dir, err := os.MkdirTemp(base, "work-"+id+"-")
	if err != nil {
		fmt.Fprintln(os.Stderr, err)
		return 64
	}
	defer os.RemoveAll(dir)
	nw := runtime.NumCPU()
	if ck.Workers > 0 {
		nw = ck.Workers
	}
	if n := ck.Cases(tier); n < nw {
		nw = n
	}
	if nw < 1 {
		nw = 1
	}
	limit := 45 * time.Minute
	if tier == "thorough" {
		limit = 6 * time.Hour
	}
	deadline := time.Now().Add(limit)
	outs := make([]shardOutcome, nw)
	var wg sync.WaitGroup
	for s := 0; s < nw; s++ {
		wg.Add(1)
		go func(s int) {
			defer wg.Done()
			outs[s] = runShard(self, ck, tier, seed, s, nw, dir, deadline)
		}(s)
	}
	wg.Wait()

	total := newAgg()
	total.Tier = tier
	var hashes []uint64
	stalled, gaveUp := false, false
	why := ""
	var crashes []Violation
	for _, o := range outs {
		stalled = stalled || o.stalled
		if o.why != "" && why == "" {
			why = o.why
		}
		gaveUp = gaveUp || o.gaveUp
		crashes = append(crashes, o.crashes...)
		for _, a := range o.aggs {
			for k, v := range a.Counters {
				total.Counters[k] += v
			}
			for k, v := range a.Maxima {
				if v > total.Maxima[k] {
					total.Maxima[k] = v
				}
			}
			for k, v := range a.Known {
				total.Known[k] += v
				total.KnownDesc[k] = a.KnownDesc[k]
			}
			total.Evals += a.Evals
			total.CasesDone += a.CasesDone
			total.TotalViol += a.TotalViol
			if a.MaxCPUms > total.MaxCPUms {
				total.MaxCPUms = a.MaxCPUms
			}
			total.Violations = append(total.Violations, a.Violations...)
		}
		for _, hf := range o.hashFile {
			b, _ := os.ReadFile(hf)
			for i := 0; i+8 <= len(b); i += 8 {
				hashes = append(hashes, binary.LittleEndian.Uint64(b[i:]))
			}
		}
	}
	// samples: spread over the shards
	for round := 0; len(total.Samples) < maxSamples && round < maxSamples; round++ {
		for _, o := range outs {
			for _, a := range o.aggs {
				if round < len(a.Samples) && len(total.Samples) < maxSamples {
					total.Samples = append(total.Samples, a.Samples[round])
				}
			}
		}
	}
	sort.Slice(hashes, func(i, j int) bool { return hashes[i] < hashes[j] })
	distinct := 0
	for i := range hashes {
		if i == 0 || hashes[i] != hashes[i-1] {
			distinct++
		}
	}
	total.Distinct = int64(distinct)
	total.Violations = append(crashes, total.Violations...)
	total.TotalViol += int64(len(crashes))

	// data races reported by the race detector
	races := 0
	if ck.Race {
		files, _ := filepath.Glob(dir + "/race.*")
		seen := map[string]bool{}
		for _, f := range files {
			b, _ := os.ReadFile(f)
			for _, blk := range strings.Split(string(b), "==================") {
				if !strings.Contains(blk, "WARNING: DATA RACE") {
					continue
				}
				races++
				key := raceKey(blk)
				if seen[key] {
					continue
				}
				seen[key] = true
				total.Violations = append([]Violation{{Property: ck.ID, Seed: seed, Tier: tier, Index: -1000, Message: "data race reported by the race detector", Detail: map[string]interface{}{"report": blk}}}, total.Violations...)
				total.TotalViol++
			}
		}
		total.Counters["race_reports"] = int64(races)
	}

	// statement coverage of the library reached by this workload (thorough tier: the checker is built with -cover)
	if os.Getenv("VERIF_COVER") == "1" {
		if out, err := exec.Command("go", "tool", "covdata", "percent", "-i="+dir+"/cov").CombinedOutput(); err == nil {
			covmap := map[string]string{}
			for _, l := range strings.Split(string(out), "\n") {
				f := strings.Fields(l)
				for i := 0; i+2 < len(f); i++ {
					if strings.HasPrefix(f[i], "github.com/jawher/mow.cli") && f[i+1] == "coverage:" {
						covmap[f[i]] = f[i+2]
					}
				}
			}
			if total.Extra == nil {
				total.Extra = map[string]interface{}{}
			}
			total.Extra["library_statement_coverage"] = covmap
		}
	}

	inconclusive := ""
	if stalled {
		inconclusive = "a worker stalled, could not be started or the wall-clock limit was reached: " + why
	}
	if gaveUp {
		inconclusive = "a shard crashed too often to be explored"
	}
	if ck.Finish != nil {
		if msg := ck.Finish(total); msg != "" && inconclusive == "" {
			inconclusive = msg
		}
	}
	floor := 2
	if ck.Floor != nil {
		floor = ck.Floor(tier)
	}
	if inconclusive == "" && distinct < floor {
		inconclusive = fmt.Sprintf("only %d distinct non-trivial cases observed, floor is %d", distinct, floor)
	}

	// replay files
	code := 0
	rdir := filepath.Join(OutRoot(), "replays", id)
	var lines []string
	for i, v := range total.Violations {
		if i >= maxViolationsKept {
			break
		}
		os.MkdirAll(rdir, 0o755)
		p := filepath.Join(rdir, fmt.Sprintf("%d-%s-%d-%d.json", seed, tier, v.Index, v.Sub))
		b, _ := json.MarshalIndent(v, "", "  ")
		os.WriteFile(p, b, 0o644)
		lines = append(lines, fmt.Sprintf("VIOLATION property=%s replay=%s", id, p))
		if i < 5 {
			fmt.Printf("  violation: %s\n    case: %s\n", v.Message, truncate(string(v.Case), 600))
		}
		code = 1
	}

	ids := []string{}
	for k := range total.Known {
		ids = append(ids, k)
	}
	sort.Strings(ids)
	for _, k := range ids {
		fmt.Printf("KNOWN-FINDING: property=%s %s [%s, seen %d times in this run]\n", id, total.KnownDesc[k], k, total.Known[k])
	}
	for _, k := range KnownFor(id) {
		if total.Known[k] == 0 {
			fmt.Printf("note: known finding %s of %s was not reproduced by this run\n", k, id)
		}
	}

	exh := false
	if ck.Exhaustive != nil {
		exh = ck.Exhaustive(tier)
	}
	evals := total.Evals
	if evals == 0 {
		evals = total.CasesDone
	}
	samples := []json.RawMessage{}
	samples = append(samples, total.Samples...)
	cov := map[string]interface{}{
		"evaluations":         evals,
		"distinct_nontrivial": distinct,
		"rule":                ck.Rule,
		"samples":             samples,
		"exhaustive":          exh,
		"cases":               total.CasesDone,
		"histogram":           total.Counters,
		"maxima":              total.Maxima,
		"max_case_cpu_ms":     total.MaxCPUms,
		"workers":             nw,
		"worker_crashes":      len(crashes),
		"known_findings":      total.Known,
	}
	for k, v := range total.Extra {
		cov[k] = v
	}
	if inconclusive != "" {
		cov["inconclusive"] = inconclusive
	}
	ev := map[string]interface{}{
		"property_id": id,
		"tier":        tier,
		"seed":        seed,
		"level":       "exploration",
		"coverage":    cov,
		"assumptions": ck.Assumptions,
		"wall_s":      time.Since(t0).Seconds(),
		"violations":  total.TotalViol,
		"verdict":     map[bool]string{true: "violated", false: map[bool]string{true: "inconclusive", false: "held on what was observed"}[inconclusive != ""]}[code == 1],
	}
	os.MkdirAll(filepath.Join(OutRoot(), "evidence"), 0o755)
	eb, _ := json.MarshalIndent(ev, "", " ")
	if err := os.WriteFile(filepath.Join(OutRoot(), "evidence", id+".json"), append(eb, '\n'), 0o644); err != nil {
		fmt.Fprintln(os.Stderr, err)
		return 64
	}
	fmt.Printf("%s %s seed=%d: %d cases, %d evaluations, %d distinct non-trivial, %d violations, max case cpu %d ms, %.1fs\n", id, tier, seed, total.CasesDone, evals, distinct, total.TotalViol, total.MaxCPUms, time.Since(t0).Seconds())
	printTop(total.Counters)
	for _, l := range lines {
		fmt.Println(l)
	}
	if code == 1 {
		return 1
	}
	if inconclusive != "" {
		fmt.Printf("INCONCLUSIVE property=%s %s\n", id, inconclusive)
		return 2
	}
	return 0
}

func printTop(c map[string]int64) {
	var ks []string
	for k := range c {
		ks = append(ks, k)
	}
	sort.Strings(ks)
	var b bytes.Buffer
	for _, k := range ks {
		fmt.Fprintf(&b, " %s=%d", k, c[k])
	}
	s := b.String()
	fmt.Println(" observed:" + truncate(s, 1800))
}

func truncate(s string, n int) string {
	if len(s) > n {
		return s[:n] + "…"
	}
	return s
}

// raceKey deduplicates race reports by the function names of the two top frames
func raceKey(blk string) string {
	var fns []string
	lines := strings.Split(blk, "\n")
	for i, l := range lines {
		if (strings.HasPrefix(l, "Write at") || strings.HasPrefix(l, "Read at") || strings.HasPrefix(l, "Previous write at") || strings.HasPrefix(l, "Previous read at")) && i+1 < len(lines) {
			fns = append(fns, strings.TrimSpace(lines[i+1]))
		}
	}
	return strings.Join(fns, "|")
}

// ReplayMain re-executes the case recorded in a replay file, verbosely
func ReplayMain(path string) int {
	b, err := os.ReadFile(path)
	if err != nil {
		fmt.Fprintln(os.Stderr, err)
		return 64
	}
	var v Violation
	if err := json.Unmarshal(b, &v); err != nil {
		fmt.Fprintln(os.Stderr, err)
		return 64
	}
	ck := Lookup(v.Property)
	if ck == nil {
		fmt.Fprintln(os.Stderr, "unknown check", v.Property)
		return 64
	}
	LoadKnown(filepath.Join(Root(), "KNOWN_FINDINGS.txt"))
	fmt.Printf("replaying %s seed=%d tier=%s index=%d\nrecorded: %s\n", v.Property, v.Seed, v.Tier, v.Index, v.Message)
	agg := newAgg()
	RunCase(ck, agg, nil, v.Seed, v.Tier, v.Index, true)
	if agg.TotalViol > 0 {
		fmt.Printf("VIOLATION property=%s replay=%s\n", v.Property, path)
		return 1
	}
	fmt.Println("no violation on replay")
	return 0
}
