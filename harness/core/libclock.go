package core

import (
	"runtime"
	"sync"
	"syscall"
	"unsafe"
)

// The per-case CPU budget is about the library, so it is measured on the OS threads that execute library code and on
// nothing else: process-wide CPU time (getrusage) also contains the garbage collector's idle mark workers, which on a
// 16-P process keep up to 15 threads polling for as long as a collection phase lasts - and on an oversubscribed machine
// (load average above 100 was observed) a phase lasts for as long as one descheduled thread is waited for. Identical
// deterministic cases were seen to cost between 0.2 and 14 process-CPU-seconds that way.

// threadCPU reads the CPU-time clock of one thread of this process (Linux: the dynamic clock id of a thread is
// (^tid << 3) | CPUCLOCK_PERTHREAD | CPUCLOCK_SCHED, as pthread_getcpuclockid computes it)
func threadCPU(tid int) int64 {
	clk := int32((^uint32(tid))<<3 | 6)
	var ts syscall.Timespec
	if _, _, e := syscall.Syscall(syscall.SYS_CLOCK_GETTIME, uintptr(clk), uintptr(unsafe.Pointer(&ts)), 0); e != 0 {
		return -1
	}
	return ts.Nano()
}

type libThread struct {
	tid   int
	start int64
}

// threadClock is switched on by workers that run one case at a time. The concurrency check (C20: 16 goroutines inside the
// library at once under the race detector, hooks that yield) keeps the process-wide clock with a sixty times larger
// budget: pinning its goroutines makes every yield a thread hand-off (measured: 10x slower), and with all Ps busy there
// are no idle collector threads to distort the process clock in the first place.
var threadClock bool

var (
	libMu      sync.Mutex
	libThreads = map[int]*libThread{}
)

// EnterLibrary is called by a goroutine that is about to run library code (drive.Run and friends): the goroutine is
// pinned to its OS thread and that thread's CPU clock is what the watchdog compares with the budget until the returned
// function is called (deferred by the caller, so that it also runs on Goexit and on panics)
func EnterLibrary() func() {
	if !threadClock {
		return func() {}
	}
	runtime.LockOSThread()
	tid := syscall.Gettid()
	lt := &libThread{tid: tid, start: threadCPU(tid)}
	libMu.Lock()
	libThreads[tid] = lt
	libMu.Unlock()
	return func() {
		libMu.Lock()
		if libThreads[tid] == lt {
			delete(libThreads, tid)
		}
		libMu.Unlock()
		runtime.UnlockOSThread()
	}
}

// overBudget returns the CPU time (ns) of a registered library thread that has used more than the budget, or 0
func overBudget(budget int64) int64 {
	libMu.Lock()
	defer libMu.Unlock()
	for _, lt := range libThreads {
		if now := threadCPU(lt.tid); now >= 0 && lt.start >= 0 && now-lt.start > budget {
			return now - lt.start
		}
	}
	return 0
}
