//go:build !race

package core

const raceEnabled = false
