#!/usr/bin/env python3
"""Self-test of the monitors (DESIGN.md section 7): small source mutations of jawher/mow.cli applied to a scratch
worktree (never to /repo), then the owning checks must fire (or, for the controls, stay silent).

usage: mutants.py [--all-checks] [--suite] [name ...]
Results are written to selftest/RESULTS.md and selftest/results.json. Not a registered check."""
import json, os, subprocess, sys, shutil, time

ROOT = os.path.dirname(os.path.dirname(os.path.abspath(__file__)))
WT = "/tmp/verif-selftest-wt"
ENV = dict(os.environ, GOFLAGS="-mod=mod", GOPROXY="off", GOSUMDB="off", GOTOOLCHAIN="local")
ALL = ["C%02d" % i for i in range(1, 21)]

# (name, file, old, new, expected-to-fire, description). expected == [] -> control: nothing may fire (checked against `quiet`)
M = []
def mut(name, file, old, new, expect, desc, quiet=None, more=None):
    M.append(dict(name=name, file=file, old=old, new=new, expect=expect, desc=desc, quiet=quiet or [], more=more or []))

ARG = "internal/matcher/arg.go"; OPT = "internal/matcher/option.go"; OPTS = "internal/matcher/options.go"
FSM = "internal/fsm/fsm.go"; CTX = "internal/matcher/context.go"; PARSER = "internal/parser/parser.go"
LEX = "internal/lexer/lexer.go"; CMD = "commands.go"; CLI = "cli.go"; FLOW = "internal/flow/flow.go"
VAL = "internal/values/values.go"; UTIL = "internal/values/utils.go"; OPTIONS = "options.go"; ARGS = "args.go"

mut("arg-accepts-dash-tokens", ARG, 'if !c.RejectOptions && strings.HasPrefix(args[0], "-") && args[0] != "-" {', 'if false && !c.RejectOptions && strings.HasPrefix(args[0], "-") && args[0] != "-" {', ["C01"], "positional arguments accept option-looking tokens")
mut("arg-refuses-lone-dash", ARG, ' && args[0] != "-" {', ' {', ["C01"], "a lone - is no longer a positional")
mut("long-opt-skip-1", OPT, '''		if opt != o.theOne {
			return false, 2, args
		}
		value := args[idx+1]
		if strings.HasPrefix(value, "-") {
			return false, 0, args
		}
		c.Opts[o.theOne] = append(c.Opts[o.theOne], value)
		return true, 2, removeStringsBetween(idx, idx+1, args)''', '''		if opt != o.theOne {
			return false, 1, args
		}
		value := args[idx+1]
		if strings.HasPrefix(value, "-") {
			return false, 0, args
		}
		c.Opts[o.theOne] = append(c.Opts[o.theOne], value)
		return true, 2, removeStringsBetween(idx, idx+1, args)''', ["C11"], "skipping another long option with a separate value skips one token instead of two")
mut("short-opt-skip-1", OPT, '''			if opt != o.theOne {
				return false, 2, args
			}

			value = args[idx+1]''', '''			if opt != o.theOne {
				return false, 1, args
			}

			value = args[idx+1]''', ["C11"], "skipping another short option with a separate value skips one token instead of two")
mut("merge-prepends", CTX, 'pc.Opts[k] = append(pc.Opts[k], vs...)', 'pc.Opts[k] = append(append([]string{}, vs...), pc.Opts[k]...)', ["C02"], "values of an option merged in reverse order")
mut("merge-args-prepends", CTX, 'pc.Args[k] = append(pc.Args[k], vs...)', 'pc.Args[k] = append(append([]string{}, vs...), pc.Args[k]...)', ["C02"], "values of an argument merged in reverse order")
mut("group-matches-once", OPTS, '''	for {
		ok, nnargs := om.try(nargs, c)
		if !ok {
			return true, nargs
		}
		nargs = nnargs
	}''', '''	return true, nargs''', ["C01"], "an option group takes one occurrence only")
mut("rep-compiled-as-optional", PARSER, '''	if p.found(lexer.TTRep) {
		end.T(matcher.NewShortcut(), start)
	}''', '''	if p.found(lexer.TTRep) {
		start.T(matcher.NewShortcut(), end)
	}''', ["C01"], "x... compiled as [x]")
mut("dash-value-accepted", OPT, '''		value := args[idx+1]
		if strings.HasPrefix(value, "-") {
			return false, 0, args
		}''', '''		value := args[idx+1]''', ["C01"], "--opt takes a following dash-prefixed token as its value")
mut("exit-status-1", CMD, '''	case flag.ExitOnError:
		exiter(2)''', '''	case flag.ExitOnError:
		exiter(1)''', ["C07"], "usage errors exit with status 1")
mut("after-skipped-when-action-panics", CMD, '''				Do:      c.Action,
				Success: newOutFlow,
				Error:   newOutFlow,''', '''				Do:      c.Action,
				Success: newOutFlow,
				Error:   outFlow,''', ["C05"], "the After of the addressed command is skipped when its Action panics")
mut("after-of-failing-before-runs", CMD, "\targs = args[nargsLen:]\n\tif len(args) == 0 {", "\tnewInFlow.Error = newOutFlow\n\targs = args[nargsLen:]\n\tif len(args) == 0 {", ["C05"], "the After of the level whose Before failed runs")
mut("parseint-base-0", VAL, '''func (ia *IntValue) Set(s string) error {
	i, err := strconv.ParseInt(s, 10, 64)''', '''func (ia *IntValue) Set(s string) error {
	i, err := strconv.ParseInt(s, 0, 64)''', ["C13"], "int values parsed with base 0 (0x10, 017, 1_000 accepted)")
mut("parsefloat-32", VAL, '''func (ia *Float64Value) Set(s string) error {
	i, err := strconv.ParseFloat(s, 64)''', '''func (ia *Float64Value) Set(s string) error {
	i, err := strconv.ParseFloat(s, 32)''', ["C13"], "float values parsed with 32-bit precision")
mut("setbyuser-for-env", OPTIONS, '''	opt.ValueSetFromEnv = values.SetFromEnv(opt.Value, opt.EnvVar)
''', '''	opt.ValueSetFromEnv = values.SetFromEnv(opt.Value, opt.EnvVar)
	if opt.ValueSetFromEnv && opt.ValueSetByUser != nil {
		*opt.ValueSetByUser = true
	}
''', ["C15"], "SetByUser also set for values coming from the environment")
mut("help-ignores-dd", CMD, '''	for i, arg := range args {
		if arg == "--" {
			return -1
		}
		for _, searchArg := range searchSet {''', '''	for i, arg := range args {
		for _, searchArg := range searchSet {''', ["C14"], "a help token after -- still triggers help")
mut("dup-option-check-removed", OPTIONS, '''		if _, found := c.optionsIdx[name]; found {
			panic(fmt.Sprintf("duplicate option name %q", name))
		}''', '''		if _, found := c.optionsIdx[name]; found {
			_ = fmt.Sprintf("duplicate option name %q", name)
			continue
		}''', ["C18"], "a duplicate option name is silently ignored")
mut("dup-arg-check-removed", ARGS, '''	if _, found := c.argsIdx[arg.Name]; found {
		panic(fmt.Sprintf("duplicate argument name %q", arg.Name))
	}''', '', ["C18"], "a duplicate argument name silently shadows the first")
mut("package-level-scratch", OPT, '''func (o *opt) Match(args []string, c *ParseContext) (bool, []string) {
	if len(args) == 0 || c.RejectOptions {''', '''var lastArgs []string

func (o *opt) Match(args []string, c *ParseContext) (bool, []string) {
	lastArgs = args
	if len(args) == 0 || c.RejectOptions {''', ["C20"], "a package-level scratch variable written on every match (data race)")
mut("env-last-valid-wins", UTIL, '''			if !isMulti {
				if err := into.Set(v); err == nil {
					return true
				}
				continue
			}''', '''			if !isMulti {
				if err := into.Set(v); err == nil {
					found = true
				}
				continue
			}''', ["C06"], "the last valid environment variable wins instead of the first",
    more=[("	multiValued, isMulti := into.(MultiValued)\n", "	multiValued, isMulti := into.(MultiValued)\n	found := false\n"), ("		}\n	}\n	return false\n}", "		}\n	}\n	return found\n}")])
mut("multi-appends-instead-of-replacing", FSM, '''		if multiValued, ok := con.Value.(values.MultiValued); ok {
			multiValued.Clear()
		}''', '''		if _, ok := con.Value.(values.MultiValued); ok {
		}''', ["C06", "C19"], "command-line values extend environment/default content instead of replacing it")
mut("single-valued-first-wins", FSM, '''		for _, v := range vs {
			if err := con.Value.Set(v); err != nil {
				return err
			}
		}''', '''		for i, v := range vs {
			if _, multi := con.Value.(values.MultiValued); !multi && i > 0 {
				break
			}
			if err := con.Value.Set(v); err != nil {
				return err
			}
		}''', ["C06"], "for single-valued types the first command-line value wins")
mut("env-elements-not-trimmed", UTIL, '''		v = strings.TrimSpace(v)
''', '', ["C06", "C19"], "elements of a comma separated environment list keep their blanks")
mut("empty-env-not-skipped", UTIL, '''			if len(v) == 0 {
				continue
			}''', '', ["C06"], "an empty environment variable is used instead of being skipped")
mut("lexer-arg-no-underscore", LEX, "return isUppercase(c) || isDigit(c) || c == '_'", "return isUppercase(c) || isDigit(c)", ["C08"], "argument names may not contain _")
mut("lexer-long-no-digits", LEX, "return isLetter(c) || isDigit(c) || c == '_' || (!first && c == '-')", "return isLetter(c) || c == '_' || (!first && c == '-')", ["C08"], "long option names may not contain digits")
# (a mutation letting long names start with a dash, '---x', only changes behaviour inside the unclaimed '--' + non-name-character zone: not listed)
mut("lexer-folded-threshold", LEX, "if pos-start > 2 {", "if pos-start > 3 {", ["C08"], "-ab lexed as a short option instead of a folded sequence")
mut("parser-missing-back", PARSER, '''		if !declared {
			p.back()
			panic(fmt.Sprintf("Undeclared arg %s", name))''', '''		if !declared {
			panic(fmt.Sprintf("Undeclared arg %s", name))''', ["C08"], "undeclared argument reported one token late")
mut("parser-options-after-dd", PARSER, '''	case p.found(lexer.TTDoubleDash):
		p.rejectOptions = true''', '''	case p.found(lexer.TTDoubleDash):''', ["C08"], "options accepted after -- in a spec")
mut("lexer-error-pos-plus-1", LEX, "return &ParseError{usage, msg, pos}", "return &ParseError{usage, msg, pos + 1}", ["C08", "C03"], "lexer errors point one character too far (past the end for trailing errors)")
mut("exit-before-afters", FLOW, '''		if e := recover(); e != nil {
			if s.Error == nil {''', '''		if e := recover(); e != nil {
			if code, ok := e.(ExitCode); ok && s.Exiter != nil {
				s.Exiter(int(code))
			}
			if s.Error == nil {''', ["C05"], "Exit takes effect before the After interceptors run")
mut("first-raised-value-wins", FLOW, '''			s.Error.Run(e)''', '''			if p != nil {
				e = p
			}
			s.Error.Run(e)''', ["C05"], "the first raised value wins over later ones")
mut("panic-value-wrapped", FLOW, '''		panic(p)
	}
}''', '''		panic(struct{ v interface{} }{p})
	}
}''', ["C05"], "the re-raised panic value is wrapped")
mut("policy-not-inherited", CMD, '''	c.commands = append(c.commands, &Cmd{
		ErrorHandling: c.ErrorHandling,''', '''	c.commands = append(c.commands, &Cmd{''', ["C07"], "subcommands do not inherit the error policy")
mut("usage-without-parents", CMD, '''	full := append(c.parents, c.name)
	path := strings.Join(full, " ")''', '''	full := []string{c.name}
	path := strings.Join(full, " ")''', ["C07", "C14", "C17"], "the usage line shows the command name without its parents")
mut("alias-first-name-only", CMD, '''	for _, alias := range c.aliases {
		if arg == alias {''', '''	for _, alias := range c.aliases[:1] {
		if arg == alias {''', ["C04"], "only the first alias of a command is recognised")
mut("implicit-spec-reversed", CMD, '''		for _, arg := range c.args {
			c.Spec += arg.Name + " "
		}''', '''		for i := len(c.args) - 1; i >= 0; i-- {
			c.Spec += c.args[i].Name + " "
		}''', ["C16"], "implicit spec lists the arguments in reverse declaration order")
mut("implicit-spec-no-options", CMD, '''		if len(c.options) > 0 {
			c.Spec = "[OPTIONS] "
		}''', '''		if len(c.options) > 1 {
			c.Spec = "[OPTIONS] "
		}''', ["C16"], "implicit spec omits [OPTIONS] when exactly one option is declared")
mut("hidden-commands-listed", CMD, '''		if c.Hidden {
			continue
		}''', '', ["C17"], "hidden commands appear in the help")
mut("hidden-default-shown", CMD, '''	if hide {
		return ""
	}
''', '', ["C17"], "HideValue is ignored")
mut("help-last-long-name", CMD, '''		if len(n) > 2 && long == "" {
			long = n
		}''', '''		if len(n) > 2 {
			long = n
		}''', ["C17"], "the help shows the last long name instead of the first")
mut("version-anywhere", CMD, '''	arg := args[0]
	for _, searchArg := range searchSet {
		if arg == searchArg {
			return true
		}
	}
	return false''', '''	for _, arg := range args {
		for _, searchArg := range searchSet {
			if arg == searchArg {
				return true
			}
		}
	}
	return false''', ["C14"], "the version flag triggers at any position")
mut("flag-set-1", OPT, '''	case values.IsBool(opt.Value):
		if opt != o.theOne {
			return false, 1, args
		}
		c.Opts[o.theOne] = append(c.Opts[o.theOne], "true")''', '''	case values.IsBool(opt.Value):
		if opt != o.theOne {
			return false, 1, args
		}
		c.Opts[o.theOne] = append(c.Opts[o.theOne], "1")''', ["C19"], "a long flag without value receives Set(\"1\") instead of Set(\"true\")")
mut("env-consulted-first", OPT, '''func (o *opt) Match(args []string, c *ParseContext) (bool, []string) {
	if len(args) == 0 || c.RejectOptions {''', '''func (o *opt) Match(args []string, c *ParseContext) (bool, []string) {
	if len(args) == 0 || c.RejectOptions || o.theOne.ValueSetFromEnv {''', ["C12"], "an option with an environment value is never looked for on the command line")
mut("reject-options-not-propagated", FSM, '''		fresh.RejectOptions = pc.RejectOptions
''', '', ["C09"], "the end-of-options state is lost from one state to the next")
mut("dd-consumed-twice", FSM, '''		if !pc.RejectOptions && arg == "--" {''', '''		if arg == "--" {''', ["C09"], "every -- is dropped, not only the first")
mut("lexer-tab-no-advance", LEX, '''		case '\\t':
			pos++''', '''		case '\\t':
			if pos > 3 {
				pos++
			}''', ["C03", "C08"], "the lexer does not advance on a tab in the first columns (hang)")
mut("revert-D1-simplify", FSM, '''			if inlined[next] {
				return true
			}
			inlined[next] = true
''', '', ["C01", "C03"], "revert of fix a18942b (simplify never ends)")
mut("revert-D2-trailing-dd", FSM, '''	if len(args) > 0 {
		arg := args[0]

		if !pc.RejectOptions && arg == "--" {
			pc.RejectOptions = true
			args = args[1:]
		}
	}

	// only test for the end after a leading -- was dropped: it may have been the last argument
	if s.Terminal && len(args) == 0 {
		return true
	}
''', '''	if s.Terminal && len(args) == 0 {
		return true
	}

	if len(args) > 0 {
		arg := args[0]

		if !pc.RejectOptions && arg == "--" {
			pc.RejectOptions = true
			args = args[1:]
		}
	}
''', ["C01", "C09"], "revert of fix 59c969c (trailing --)")
mut("revert-D3-memo", FSM, '''	if tried[here] {
		return false
	}
''', '', ["C03"], "revert of fix 898d1d5 (no memoisation of tried configurations)")
mut("revert-D4-exclusion", OPTS, "if len(c.Opts[o]) == found {", "if o.ValueSetFromEnv {", ["C12"], "revert of fix 1577324 (env-backed option excluded after a consuming match)", more=[("		found := len(c.Opts[o])\n", "")])
mut("revert-D6-dangling-dash", LEX, '''			default:
				return nil, err("Was expecting an option name")
			}''', '''			}''', ["C08"], "revert of fix d609a84 (dangling dash dropped)")
mut("revert-D7-lone-dash-skipped", OPT, '''		case arg == "-" || arg == "--":
			// a lone dash is a positional argument: like any other one it ends the search
			return o.theOne.ValueSetFromEnv, args''', '''		case arg == "-":
			idx++
		case arg == "--":
			return o.theOne.ValueSetFromEnv, args''', ["C01"], "revert of fix d9437e5 (lone dash skipped by the option matcher)")
# ---- controls: behaviour changes that no property forbids; nothing may fire
mut("child-initialised-before-parent-bound", CMD, """	if err := c.fsm.Parse(args[:nargsLen]); err != nil {
		fmt.Fprintf(stdErr, "Error: %s\\n", err.Error())""", """	if nargsLen < len(args) {
		for _, sub := range c.commands {
			if sub.isAlias(args[nargsLen]) && sub.fsm == nil {
				if err := sub.doInit(); err != nil {
					panic(err)
				}
			}
		}
	}
	if err := c.fsm.Parse(args[:nargsLen]); err != nil {
		fmt.Fprintf(stdErr, "Error: %s\\n", err.Error())""", ["C04"], "a sub-command's initializer runs before its parent's own tokens are validated and bound (it reads stale parent variables)",
    more=[("""		if sub.isAlias(arg) {
			if err := sub.doInit(); err != nil {
				panic(err)
			}
			return sub.parse(args[1:], entry, newInFlow, newOutFlow)""", """		if sub.isAlias(arg) {
			if sub.fsm == nil {
				if err := sub.doInit(); err != nil {
					panic(err)
				}
			}
			return sub.parse(args[1:], entry, newInFlow, newOutFlow)""")])
mut("help-takes-a-lock-it-already-holds", CMD, """func (c *Cmd) printHelp(longDesc bool) {
""", """var helpMu sync.Mutex

func (c *Cmd) printHelp(longDesc bool) {
	helpMu.Lock()
	defer helpMu.Unlock()
	if len(c.parents) > 1 {
		helpMu.Lock() // "nested" help: self-deadlock
	}
""", ["C07"], "printing the help of a command two levels down blocks forever on a library mutex (no CPU is burnt: only the goroutine dump of the stalled worker shows it)",
    more=[('import (\n', 'import (\n	"sync"\n')])
mut("control-help-layout", CMD, "tabwriter.NewWriter(stdErr, 15, 1, 3, ' ', 0)", "tabwriter.NewWriter(stdErr, 24, 1, 4, ' ', 0)", [], "column widths of the help change", quiet=["C17", "C14", "C07", "C16"])
mut("control-error-wording", FSM, 'fmt.Errorf("incorrect usage")', 'fmt.Errorf("wrong usage, see below")', [], "wording of the usage error changes", quiet=["C07", "C04", "C13", "C14"])
mut("control-error-prefix", CMD, 'fmt.Fprintf(stdErr, "Error: %s\\n", err.Error())', 'fmt.Fprintf(stdErr, "error - %s\\n", err.Error())', [], "prefix of the error line changes", quiet=["C07", "C04", "C13", "C14", "C17"])
mut("control-help-indent", CMD, 'fmt.Fprintf(w, "  %s\\t%s\\n", s1, strings.TrimSpace(lines[0]))', 'fmt.Fprintf(w, "    %s\\t%s\\n", s1, strings.TrimSpace(lines[0]))', [], "rows of the help are indented by four blanks instead of two", quiet=["C17", "C14", "C16"])
mut("control-derivation-order", ARG, '''func (*arg) Priority() int {
	return 8
}''', '''func (*arg) Priority() int {
	return 0
}''', [], "arguments are tried before options: another valid derivation may be chosen for ambiguous specs", quiet=["C01", "C02", "C04", "C09", "C10", "C11", "C12", "C16"])
mut("control-no-action-returns-quietly", CMD, '''		c.PrintHelp()
		c.onError(nil)
		return nil''', '''		c.PrintHelp()
		return nil''', [], "a command without Action prints help and returns nil whatever the policy (unclaimed behaviour)", quiet=["C04", "C05", "C07", "C14"])


def sh(cmd, **kw):
    return subprocess.run(cmd, shell=True, capture_output=True, text=True, errors="replace", env=ENV, **kw)

def main():
    args = [a for a in sys.argv[1:] if not a.startswith("--")]
    all_checks = "--all-checks" in sys.argv
    suite = "--suite" in sys.argv
    sh("git -C /repo worktree remove --force %s; rm -rf %s" % (WT, WT))
    r = sh("git -C /repo worktree add --detach %s HEAD" % WT)
    if r.returncode != 0:
        print(r.stderr); sys.exit(2)
    results = []
    try:
        for m in M:
            if args and m["name"] not in args:
                continue
            path = os.path.join(WT, m["file"])
            src = open(path).read()
            res = dict(name=m["name"], desc=m["desc"], expect=m["expect"], file=m["file"])
            if src.count(m["old"]) != 1:
                res["status"] = "PATCH-DOES-NOT-APPLY (%d matches)" % src.count(m["old"])
                results.append(res); print(res["name"], res["status"]); continue
            src = src.replace(m["old"], m["new"])
            for (o2, n2) in m["more"]:
                assert src.count(o2) == 1, (m["name"], o2)
                src = src.replace(o2, n2)
            open(path, "w").write(src)
            b = sh("cd %s && go build ./... && go vet -tags verif . 2>&1 | head -5" % WT)
            if b.returncode != 0:
                res["status"] = "DOES-NOT-COMPILE"; res["detail"] = (b.stdout + b.stderr)[-400:]
            else:
                if suite:
                    t = sh("cd %s && timeout 120 go test -vet=off -count=1 ./... 2>&1 | grep -c '^FAIL\\|^---.*FAIL\\|panic:'" % WT)
                    res["suite_passes"] = t.stdout.strip() == "0"
                fired, silent = [], []
                todo = ALL if all_checks else (m["expect"] or m["quiet"])
                for cid in todo:
                    t0 = time.time()
                    c = sh("cd %s && VERIF_REPO=%s VERIF_OUT=/tmp/verif-selftest-out ./run.sh check %s quick" % (ROOT, WT, cid))
                    (fired if c.returncode == 1 and "VIOLATION property=%s" % cid in c.stdout else silent).append(cid)
                    if c.returncode not in (0, 1):
                        res.setdefault("odd", []).append("%s exit %d" % (cid, c.returncode))
                res["fired"] = fired
                missing = [c for c in m["expect"] if c not in fired]
                unexpected = [c for c in fired if not m["expect"]]
                res["status"] = "OK" if not missing and not unexpected else ("MISSED by " + ",".join(missing) if missing else "FALSE-ALARM " + ",".join(unexpected))
            results.append(res)
            print("%-40s %-28s fired=%s%s" % (res["name"], res["status"], ",".join(res.get("fired", [])), "" if "suite_passes" not in res else " suite_passes=%s" % res["suite_passes"]), flush=True)
            sh("git -C %s checkout -- ." % WT)
    finally:
        sh("git -C /repo worktree remove --force %s; rm -rf %s" % (WT, WT))
        sh("rm -rf /tmp/verif-selftest-out")
    if not args:
        json.dump(results, open(os.path.join(ROOT, "selftest", "results.json"), "w"), indent=1)
        with open(os.path.join(ROOT, "selftest", "RESULTS.md"), "w") as f:
            f.write("# Self-test of the monitors: source mutations of jawher/mow.cli (scratch worktree)\n\n")
            f.write("Generated by selftest/mutants.py%s. `fired` lists the checks whose quick tier reported a VIOLATION.\n\n" % (" --all-checks" if all_checks else ""))
            f.write("| mutation | what it does | expected | fired | suite passes | verdict |\n|---|---|---|---|---|---|\n")
            for r in results:
                f.write("| %s | %s | %s | %s | %s | %s |\n" % (r["name"], r["desc"], ",".join(r["expect"]) or "none (control)", ",".join(r.get("fired", [])) or "-", r.get("suite_passes", "n/a"), r["status"]))
    bad = [r for r in results if r["status"] != "OK"]
    print("%d mutants, %d not OK" % (len(results), len(bad)))
    sys.exit(1 if bad else 0)

if __name__ == "__main__":
    main()
