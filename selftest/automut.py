#!/usr/bin/env python3
"""Systematic mutation run (DESIGN.md section 7): every syntactic mutant of the library's non-test sources that mutgen
can produce is applied to a scratch worktree (never to /repo); mutants that still compile AND pass the unedited test
suite ("survivors": exactly the kind of change the monitors exist for) are then run against the quick tier of the
checks, most likely owner first, until one reports a violation.

usage: automut.py [--phase1-only] [--jobs N] [--only file.go] [--resume]
Writes selftest/automut.json (all mutants) and selftest/AUTOMUT.md (summary + the undetected survivors). Not a registered check."""
import json, os, subprocess, sys, threading, queue, time

ROOT = os.path.dirname(os.path.dirname(os.path.abspath(__file__)))
ENV = dict(os.environ, GOFLAGS="-mod=mod", GOPROXY="off", GOSUMDB="off", GOTOOLCHAIN="local")
MUTGEN = "/tmp/verif-mutgen"
OUT = os.path.join(ROOT, "selftest", "automut.json")
ALL = ["C%02d" % i for i in range(1, 21)]
ORDER = {
    "internal/lexer": ["C08", "C01", "C03"],
    "internal/parser": ["C08", "C01", "C03", "C02"],
    "internal/fsm": ["C01", "C02", "C03", "C09", "C12", "C15", "C19", "C07"],
    "internal/matcher": ["C01", "C02", "C10", "C11", "C09", "C12", "C03"],
    "internal/flow": ["C05", "C07", "C04"],
    "internal/values": ["C13", "C06", "C17", "C19", "C15"],
    "internal/container": ["C02", "C06"],
    "commands.go": ["C04", "C07", "C14", "C17", "C16", "C05", "C08", "C18"],
    "cli.go": ["C14", "C07", "C05", "C04", "C17", "C18"],
    "options.go": ["C18", "C06", "C17", "C13", "C15", "C12", "C19"],
    "args.go": ["C18", "C06", "C17", "C13", "C15", "C19", "C16"],
    "errors.go": ["C07"],
}

def sh(cmd, timeout=600, cwd=None):
    try:
        r = subprocess.run(cmd, shell=True, capture_output=True, text=True, errors="replace", env=ENV, timeout=timeout, cwd=cwd)
        return r.returncode, r.stdout + r.stderr
    except subprocess.TimeoutExpired:
        return 124, "TIMEOUT"

def files():
    rc, out = sh("git -C /repo ls-files '*.go'")
    return [f for f in out.split() if not f.endswith("_test.go") and not f.endswith("verif_hooks.go") and f != "doc.go"
            and "flowdot" not in f and "fsmtest" not in f and "matchertest" not in f]  # debugging / test-support packages

def order_for(f):
    first = []
    for k, v in ORDER.items():
        if f.startswith(k):
            first = v
    return first + [c for c in ALL if c not in first]

def main():
    jobs = 8
    only = None
    for i, a in enumerate(sys.argv):
        if a == "--jobs": jobs = int(sys.argv[i + 1])
        if a == "--only": only = sys.argv[i + 1]
    rc, out = sh("cd %s/selftest/mutgen && go build -o %s ." % (ROOT, MUTGEN))
    assert rc == 0, out
    results = {}
    if "--resume" in sys.argv and os.path.exists(OUT):
        results = {m["id"]: m for m in json.load(open(OUT))}
    muts = []
    for f in files():
        if only and f != only: continue
        rc, out = sh("%s -list /repo/%s" % (MUTGEN, f))
        for l in out.strip().split("\n"):
            if not l: continue
            k, line, op, desc = l.split("\t", 3)
            mid = "%s#%s" % (f, k)
            if mid not in results:
                results[mid] = dict(id=mid, file=f, k=int(k), line=int(line), op=op, desc=desc, status="pending")
            muts.append(mid)
    lock = threading.Lock()
    def save():
        with lock:
            json.dump([results[m] for m in sorted(results, key=lambda x: (results[x]["file"], results[x]["k"]))], open(OUT + ".tmp", "w"), indent=0)
            os.replace(OUT + ".tmp", OUT)
    # ---- phase 1: compile + unedited suite
    q = queue.Queue()
    for m in muts:
        if results[m]["status"] == "pending": q.put(m)
    def worker1(i):
        wt = "/tmp/verif-automut-wt%d" % i
        sh("git -C /repo worktree remove --force %s; rm -rf %s; git -C /repo worktree add --detach %s HEAD" % (wt, wt, wt))
        n = 0
        while True:
            try: m = q.get_nowait()
            except queue.Empty: break
            r = results[m]
            sh("%s -apply %d /repo/%s %s/%s" % (MUTGEN, r["k"], r["file"], wt, r["file"]))
            rc, out = sh("go build ./... && go build -tags verif ./...", cwd=wt, timeout=400)
            if rc != 0:
                r["status"] = "does-not-compile"
            else:
                rc, out = sh("go test -vet=off -count=1 ./... 2>&1 | tail -5", cwd=wt, timeout=240)
                if rc == 124: r["status"] = "killed-by-suite (hang)"
                elif "FAIL" in out or "panic:" in out or rc != 0: r["status"] = "killed-by-suite"
                else: r["status"] = "survivor"
            sh("git -C %s checkout -- ." % wt)
            n += 1
            if n % 20 == 0: save()
        sh("git -C /repo worktree remove --force %s; rm -rf %s" % (wt, wt))
    ts = [threading.Thread(target=worker1, args=(i,)) for i in range(jobs)]
    [t.start() for t in ts]; [t.join() for t in ts]
    save()
    surv = [m for m in muts if results[m]["status"] == "survivor"]
    print("phase 1: %d mutants, %d do not compile, %d killed by the suite, %d survivors" % (
        len(muts), sum(results[m]["status"] == "does-not-compile" for m in muts), sum(results[m]["status"].startswith("killed") for m in muts), len(surv)), flush=True)
    if "--phase1-only" in sys.argv:
        return
    # ---- phase 2: the checks against the survivors
    q2 = queue.Queue()
    for m in surv:
        if "fired" not in results[m]: q2.put(m)
    def worker2(i):
        wt = "/tmp/verif-automut-wt%d" % i
        outd = "/tmp/verif-automut-out%d" % i
        sh("git -C /repo worktree remove --force %s; rm -rf %s; git -C /repo worktree add --detach %s HEAD" % (wt, wt, wt))
        while True:
            try: m = q2.get_nowait()
            except queue.Empty: break
            r = results[m]
            sh("%s -apply %d /repo/%s %s/%s" % (MUTGEN, r["k"], r["file"], wt, r["file"]))
            r["fired"], r["silent"], r["odd"] = None, [], []
            t0 = time.time()
            for cid in order_for(r["file"]):
                rc, out = sh("VERIF_REPO=%s VERIF_OUT=%s ./run.sh check %s quick" % (wt, outd, cid), cwd=ROOT, timeout=3600)
                if rc == 1 and ("VIOLATION property=%s" % cid) in out:
                    r["fired"] = cid
                    fv = [l.strip() for l in out.split("\n") if l.strip().startswith("violation:")][:1]
                    r["first_violation"] = fv[0][:300] if fv else ""
                    break
                elif rc == 0: r["silent"].append(cid)
                else: r["odd"].append("%s exit %d" % (cid, rc))
            r["seconds"] = int(time.time() - t0)
            sh("git -C %s checkout -- ." % wt)
            sh("rm -rf %s" % outd)
            print("%s %s:%d [%s] %s -> %s" % (m, r["file"], r["line"], r["op"], r["desc"][:70], r["fired"] or "UNDETECTED"), flush=True)
            save()
        sh("git -C /repo worktree remove --force %s; rm -rf %s" % (wt, wt))
    ts = [threading.Thread(target=worker2, args=(i,)) for i in range(min(jobs, 4))]
    [t.start() for t in ts]; [t.join() for t in ts]
    save()
    report(results)

def report(results):
    ms = list(results.values())
    surv = [m for m in ms if m["status"] == "survivor"]
    det = [m for m in surv if m.get("fired")]
    und = [m for m in surv if "fired" in m and not m["fired"]]
    with open(os.path.join(ROOT, "selftest", "AUTOMUT.md"), "w") as f:
        f.write("# Systematic mutation run (selftest/automut.py)\n\n")
        f.write("%d syntactic mutants of the library's non-test sources; %d do not compile; %d are killed by the unedited test suite; **%d survive it** "
                "(compile and pass all existing tests). Of the survivors %d are reported by a quick-tier check, %d by none (listed below with the reason).\n\n" % (
                    len(ms), sum(m["status"] == "does-not-compile" for m in ms), sum(m["status"].startswith("killed") for m in ms), len(surv), len(det), len(und)))
        by = {}
        for m in det: by[m["fired"]] = by.get(m["fired"], 0) + 1
        f.write("First check that reported each detected survivor (checks are tried most-likely-owner first, so this is not a ranking): " + ", ".join("%s %d" % (k, by[k]) for k in sorted(by)) + "\n\n")
        f.write("## Survivors no check reported\n\n| mutant | line | operator | change | classification |\n|---|---|---|---|---|\n")
        notes = {}
        np = os.path.join(ROOT, "selftest", "automut_notes.json")
        if os.path.exists(np): notes = json.load(open(np))
        for m in sorted(und, key=lambda m: (m["file"], m["k"])):
            f.write("| %s | %d | %s | `%s` | %s |\n" % (m["id"], m["line"], m["op"], m["desc"].replace("|", "\\|"), notes.get(m["id"], "")))

if __name__ == "__main__":
    if "--report" in sys.argv:
        report({m["id"]: m for m in json.load(open(OUT))})
    else:
        main()
