// mutgen enumerates and applies small syntactic mutations of one Go source file (standard library only).
//
//	mutgen -list file.go            one line per mutation: <k>\t<line>\t<operator>\t<description>
//	mutgen -apply k file.go out.go  writes the file with mutation k applied
//
// Operators: relational / logical / arithmetic operator replacement, negated and disabled conditions, integer
// literals +-1, true<->false, dropped negation, deleted statements (calls, assignments, inc/dec, continue, break, bare
// return, defer), `return err` -> `return nil`. Mutants that do not compile are discarded by the driver.
package main

import (
	"bytes"
	"flag"
	"fmt"
	"go/ast"
	"go/parser"
	"go/printer"
	"go/token"
	"os"
	"strconv"
	"strings"
)

type site struct {
	line  int
	op    string
	desc  string
	apply func()
}

var binSwap = map[token.Token][]token.Token{
	token.EQL:  {token.NEQ},
	token.NEQ:  {token.EQL},
	token.LSS:  {token.LEQ, token.GTR},
	token.LEQ:  {token.LSS},
	token.GTR:  {token.GEQ, token.LSS},
	token.GEQ:  {token.GTR},
	token.LAND: {token.LOR},
	token.LOR:  {token.LAND},
	token.ADD:  {token.SUB},
	token.SUB:  {token.ADD},
}

func collect(fset *token.FileSet, f *ast.File) []site {
	var sites []site
	src := func(n ast.Node) string {
		var b bytes.Buffer
		printer.Fprint(&b, fset, n)
		s := strings.Join(strings.Fields(b.String()), " ")
		if len(s) > 60 {
			s = s[:60] + "..."
		}
		return s
	}
	line := func(n ast.Node) int { return fset.Position(n.Pos()).Line }
	// statement lists, for deletions
	delIn := func(list *[]ast.Stmt) {
		for i := range *list {
			i := i
			st := (*list)[i]
			ok := false
			switch s := st.(type) {
			case *ast.ExprStmt, *ast.IncDecStmt, *ast.DeferStmt:
				ok = true
			case *ast.AssignStmt:
				ok = s.Tok != token.DEFINE
			case *ast.BranchStmt:
				ok = s.Tok == token.CONTINUE || s.Tok == token.BREAK
			case *ast.ReturnStmt:
				ok = len(s.Results) == 0
			}
			if ok {
				sites = append(sites, site{line(st), "delete-statement", src(st), func() { (*list)[i] = &ast.EmptyStmt{Semicolon: st.Pos(), Implicit: false} }})
			}
		}
	}
	ast.Inspect(f, func(n ast.Node) bool {
		switch x := n.(type) {
		case *ast.BlockStmt:
			delIn(&x.List)
		case *ast.CaseClause:
			delIn(&x.Body)
		case *ast.CommClause:
			delIn(&x.Body)
		case *ast.BinaryExpr:
			for _, to := range binSwap[x.Op] {
				to, from := to, x.Op
				sites = append(sites, site{line(x), "operator", fmt.Sprintf("%s: %s -> %s", src(x), from, to), func() { x.Op = to }})
			}
		case *ast.IfStmt:
			c := x.Cond
			sites = append(sites, site{line(x), "negate-condition", src(c), func() { x.Cond = &ast.UnaryExpr{Op: token.NOT, X: &ast.ParenExpr{X: c}} }})
			sites = append(sites, site{line(x), "condition-false", src(c), func() {
				x.Cond = &ast.BinaryExpr{X: &ast.Ident{Name: "false"}, Op: token.LAND, Y: &ast.ParenExpr{X: c}}
			}})
		case *ast.ForStmt:
			if x.Cond != nil {
				c := x.Cond
				sites = append(sites, site{line(x), "loop-condition-false", src(c), func() {
					x.Cond = &ast.BinaryExpr{X: &ast.Ident{Name: "false"}, Op: token.LAND, Y: &ast.ParenExpr{X: c}}
				}})
			}
		case *ast.BasicLit:
			if x.Kind == token.INT {
				if v, err := strconv.ParseInt(x.Value, 0, 64); err == nil {
					old := x.Value
					sites = append(sites, site{line(x), "int+1", fmt.Sprintf("%s -> %d", old, v+1), func() { x.Value = strconv.FormatInt(v+1, 10) }})
					if v > 0 {
						sites = append(sites, site{line(x), "int-1", fmt.Sprintf("%s -> %d", old, v-1), func() { x.Value = strconv.FormatInt(v-1, 10) }})
					}
				}
			}
		case *ast.Ident:
			if x.Name == "true" {
				sites = append(sites, site{line(x), "bool", "true -> false", func() { x.Name = "false" }})
			} else if x.Name == "false" {
				sites = append(sites, site{line(x), "bool", "false -> true", func() { x.Name = "true" }})
			}
		case *ast.UnaryExpr:
			if x.Op == token.NOT {
				inner := x.X
				sites = append(sites, site{line(x), "drop-negation", src(x), func() { x.X = &ast.UnaryExpr{Op: token.NOT, X: inner} }})
			}
		case *ast.ReturnStmt:
			for i, r := range x.Results {
				i := i
				if id, ok := r.(*ast.Ident); ok && id.Name == "err" {
					sites = append(sites, site{line(x), "return-nil-error", src(x), func() { x.Results[i] = &ast.Ident{Name: "nil"} }})
				}
			}
		}
		return true
	})
	return sites
}

func main() {
	list := flag.Bool("list", false, "")
	apply := flag.Int("apply", -1, "")
	flag.Parse()
	args := flag.Args()
	if len(args) < 1 {
		fmt.Fprintln(os.Stderr, "usage: mutgen -list file.go | mutgen -apply k file.go out.go")
		os.Exit(64)
	}
	fset := token.NewFileSet()
	f, err := parser.ParseFile(fset, args[0], nil, parser.ParseComments)
	if err != nil {
		fmt.Fprintln(os.Stderr, err)
		os.Exit(64)
	}
	sites := collect(fset, f)
	if *list {
		for k, s := range sites {
			fmt.Printf("%d\t%d\t%s\t%s\n", k, s.line, s.op, s.desc)
		}
		return
	}
	if *apply < 0 || *apply >= len(sites) || len(args) < 2 {
		fmt.Fprintln(os.Stderr, "bad -apply")
		os.Exit(64)
	}
	sites[*apply].apply()
	var b bytes.Buffer
	if err := printer.Fprint(&b, fset, f); err != nil {
		fmt.Fprintln(os.Stderr, err)
		os.Exit(64)
	}
	if err := os.WriteFile(args[1], b.Bytes(), 0o644); err != nil {
		fmt.Fprintln(os.Stderr, err)
		os.Exit(64)
	}
}
