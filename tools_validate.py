#!/usr/bin/env python3
"""Validate MANIFEST.json and every evidence file against the schemas in /root/.vp (run with python3-vt)."""
import json, sys, glob, os
import jsonschema
root = os.path.dirname(os.path.abspath(__file__))
ok = True
def check(path, schema):
    global ok
    try:
        jsonschema.validate(json.load(open(path)), json.load(open(schema)))
        print("valid  ", path)
    except Exception as e:
        ok = False
        print("INVALID", path, str(e)[:300])
check(os.path.join(root, "MANIFEST.json"), "/root/.vp/MANIFEST.schema.json")
for f in sorted(glob.glob(os.path.join(root, "evidence", "*.json"))):
    check(f, "/root/.vp/EVIDENCE.schema.json")
sys.exit(0 if ok else 1)
