#!/usr/bin/env python3
"""Writes MANIFEST.json. The table below is the single place where claimed checks are listed."""
import json, os, subprocess

ROOT = os.path.dirname(os.path.abspath(__file__))

# id -> (technique, level text, level note, design ref)
CHECKS = {
 "C01": ("runtime differential monitor: real parser vs executable reference semantics on generated (spec, argv) cases in isolated workers; exact language-equality monitor on the compiled state graph (hooked)",
         "Exploration: the real library is run on grammar-generated specs and derived/mutated command lines and its accept/reject verdict is compared with an independent reference matcher; "
         "each compiled state graph (dumped through the VerifCompile hook) is compared for exact language equality with the reference automaton, which covers inputs of unbounded length for the structural part. "
         "Held means: no disagreement on the cases observed, outside the unclaimed zones.",
         "Trusted: the reference semantics of DESIGN.md 3.2/3.3 (own reader, Thompson automaton, memoised matcher); generators; token-level behaviour only up to the generated lengths.", "5/C01"),
 "C02": ("runtime monitor with recording value types (every Set logged) judged by an admission oracle over the reference automaton; twin run with the built-in types",
         "Exploration: for every accepted generated command line the values recorded inside the Action must be consumable, token for token and in order, by some derivation of the reference automaton (nothing invented, dropped, duplicated, moved; tokens after -- verbatim); for specs without -- the option part must equal the reader's occurrence list, and a twin run with built-in variable types must agree.",
         "Trusted: admission search of DESIGN.md 3.4; recording types; unclaimed zones skipped and counted.", "5/C02"),
 "C03": ("crash / CPU-budget watchdog around isolated worker processes; hostile spec, argv and environment-subset workload",
         "Exploration with a liveness watchdog: every case (compile + parse under all 32 subsets of env-backed options) runs in an isolated worker with a journal; worker death, an undocumented panic, a position outside the string or more than 20 CPU-seconds for one library call is a violation attributed to the journalled input; a family of long (20-64 token) lines on ambiguous repetitions separates polynomial from exponential backtracking. 'Never hangs' is restated as this bounded progress.",
         "Trusted: the kernel per-thread CPU clocks, SetMaxStack, the journal surviving a process crash (page cache). Inputs bounded: spec <= 256 bytes, nesting <= 64, <= 5 options, argv <= 16 tokens.", "5/C03"),
 "C08": ("bounded-exhaustive + random differential monitor of the real lexer/parser (via Run and the VerifTokenize hook) against a reference recogniser; token-extent monitor",
         "Exploration, exhaustive over two finite families (all strings over 19 character classes up to length 4/6, all sequences of up to 4/6 of 15 tokens) plus random longer strings against every declared/undeclared naming and sequences of specs given in turn to one application object (optionally with a version flag requested): compile-or-reject must agree with the reference grammar, the reported position must lie in the offending lexeme / at the first token the LL(1) reading fails on, no hook or Action may run before the panic (also for a subcommand's spec), and the hooked token stream must tile the non-blank bytes of the spec exactly.",
         "Trusted: reference grammar of DESIGN.md 3.1 (own lexer and LL(1) parser); '--' glued to a non-name character is unclaimed.", "5/C08"),
 "C09": ("metamorphic runtime monitor (-- inserted into the trailing positional block of the same real application) + reference-judged spec-level -- workloads",
         "Exploration: (T) inserting -- at any point of the trailing block of non-dash positionals, including the very end, must not change acceptance or any bound value; (S,V) specs containing -- and hostile dash-prefixed tails are judged by the reference for acceptance and verbatim binding (first -- bound to nothing, later ones verbatim), and 'head tail' must equal 'head -- tail' wherever the reference admits one and the same single binding.",
         "Trusted: the reader of DESIGN.md 3.2 (to find the trailing block) and, for S/V, the reference matcher; zone-4 cases skipped and counted.", "5/C09"),
 "C10": ("metamorphic runtime monitor: original vs re-spelled command line on the same real application",
         "Exploration: every option occurrence of generated command lines (accepted or not) is re-rendered with a random admissible documented spelling (short/long, =, attached, separate, folded in any grouping, any alias) and the outcome must be identical; the evidence lists how often each spelling form was produced.",
         "Trusted: the reader of DESIGN.md 3.2 (decides what an occurrence is). Specs with a spec-level -- excluded (occurrences can be re-read as positionals).", "5/C10"),
 "C11": ("metamorphic runtime monitor: original vs the same line with two adjacent occurrences of different options swapped",
         "Exploration: an adjacent pair of occurrences of different options (1-token, 2-token, folded forms) is swapped and the outcome must be identical; half pure swaps with identical spellings, half with re-drawn spellings and folding.",
         "Trusted: the reader of DESIGN.md 3.2. Specs with a spec-level -- excluded.", "5/C11"),
 "C12": ("metamorphic runtime monitor: the same real application with and without environment-backed options; targeted families for required and repeated options",
         "Exploration: accepted without environment => accepted with any subset of options backed by set valid variables, same values for options written on the command line (specs without --); a required option absent from the line is satisfied by its variable (with a negative control); an env-backed option written 1-10 times under [OPTIONS], a folded group, -e..., [-e]... is accepted with all values bound; 66-80 options under [OPTIONS] with environment values on the last ones; environment values with $, %, blanks and dashes.",
         "Trusted: the worker sets/unsets the variables around the declarations, one case at a time.", "5/C12"),
 "C16": ("metamorphic runtime monitor: twin real applications (no spec vs explicit [OPTIONS] ARG...) + usage line read back from the help",
         "Exploration: random declaration sets, twin apps (arguments declared before or after the options, related argument names, env-backed arguments, optional version flag) run on derived and mutated command lines, and a second time on the same objects, must have identical outcomes, the reference verdict for the implicit spec must agree, and both usage lines must read 'Usage: app <spec>'.",
         "Trusted: outcome comparison through recording types; usage line = first 'Usage:' line of --help output.", "5/C16"),
 "C04": ("runtime monitor on random command trees: hook/Action event log + per-level recording variables, judged by a routing model and the per-level reference semantics",
         "Exploration: random trees (up to six levels, aliases, per-level specs, optional application version flag and sub-commands with their own -V), invocations written with random aliases and per-level derived/mutated tokens, values spelled like commands of other levels, commands declared after a first Run; exactly the addressed Action must run once inside the Before/After nesting, every level's variables must hold a derivation of that level's own tokens, all other commands stay untouched, and an unconsumed token yields a usage error with no event.",
         "Trusted: routing model of DESIGN.md 3.5 and the reference matcher per level; argument vectors never spell an alias of their own level.", "5/C04"),
 "C05": ("bounded-exhaustive runtime monitor of the hook flow (event log, exit stub, recovered panic identity) against an executable flow model; sample validated in real child processes with the real os.Exit",
         "Exploration, exhaustive over all combinations of {absent, returns, panics, Exit(n)} for every Before/Action/After (five behaviours incl. Exit(0); panic values of four kinds; all three policies) on chains of depth<=2 (quick) / <=3 (thorough) plus random deeper chains, half of those run twice on one application object: exact event order, Afters of completed levels always run, exit once and last with the most recent status, re-raised panic value pointer-identical. The thorough tier re-runs sampled combinations in child processes without any stub.",
         "Trusted: the flow model of DESIGN.md 3.6; in-process exit stub = record + runtime.Goexit (validated against real processes). Configurations with an absent Action are unclaimed.", "5/C05"),
 "C06": ("runtime monitor reading built-in variables inside the Action, judged by a value model (precedence rules + strconv)",
         "Exploration: seven types x option/argument x declaration entry point x default x 0-3 environment variables (unset/empty/valid/invalid, lists with blanks) x 0-3 command-line values; the value seen by the Action must be the command-line one(s), else the first valid non-empty variable, else the default - whatever the destination held before a *Ptr declaration, for lists of up to 75 elements, and without writing into the caller's default slice. The known finding D5 is matched by a narrow predicate and reported as KNOWN-FINDING; anything else is a violation.",
         "Trusted: strconv as conversion oracle; KNOWN_FINDINGS.txt predicate for D5.", "5/C06"),
 "C07": ("runtime monitor on random command trees under the three error policies: event log, exit stub, recovered panic, error stream, judged by the routing model; typed trees via a recording twin run",
         "Exploration: every kind of rejection (spec mismatch, unknown word, undeclared/malformed option, non-convertible value) at root, middle and leaf, under ContinueOnError / ExitOnError / PanicOnError (also set per command in its initializer, or assigned to the application after the declarations), including a second rejection by the same application object: no hook or Action event, error text and usage of the rejecting command on the error stream, then exactly the policy's outcome (non-nil error / exit 2 once / panic with an error); accepted controls return nil.",
         "Trusted: routing model; exit stub; error wording taken from the ContinueOnError twin.", "5/C07"),
 "C13": ("differential runtime monitor: built-in typed variables of the real library vs strconv on an edge-case token pool, command-line and environment delivery",
         "Exploration: ~140 edge-case tokens x seven types x option/argument x delivery through every spelling (--xx=t, -x=t, -xt, --xx t, -x t, argument after --, environment); accepted iff strconv accepts, bound value bit-identical to the parse, strings byte for byte, unparsable command-line token => usage error and no Action.",
         "Trusted: strconv of the building toolchain.", "5/C13"),
 "C14": ("runtime monitor on random command trees with help/version tokens injected at every position, three policies, judged by the routing/help model",
         "Exploration: -h/--help at random (thorough: every) positions of valid and invalid invocations, with and without a --, version flag first or later: the long help of the command whose own tokens hold the token (usage path + long description), no validation, no event, exit 0 / nil; after a -- in the same command's tokens the token is data; unclaimed ancestor--- case counted only.",
         "Trusted: routing model of DESIGN.md 3.5; exit stub.", "5/C14"),
 "C15": ("runtime monitor reading every SetByUser flag inside the Action, single typed variables and all levels of random command trees",
         "Exploration: SetByUser must equal 'the command line supplied a value' for all types, options and arguments, with any combination of environment and default; on trees for every command incl. those not addressed and env-backed options without occurrence.",
         "Trusted: the recording binding as ground truth for 'the command line bound a value' on trees (itself judged by C02/C04).", "5/C15"),
 "C17": ("runtime monitor: rendered help (long via --help, short via usage error) parsed back and compared with a model of the declarations",
         "Exploration: random declarations at depth<=2 (names, aliases, descriptions incl. multi-line, env lists, defaults of every type incl. empty ones and zero, HideValue, Hidden, LongDesc, version flag); usage line, description, section order, row count/order/content must match exactly; hidden commands and undeclared rows must not appear; custom value types show String() unless IsDefault(); a deep bare tree is asked for help twice on one object (usage path); hostile $COLUMNS values must not matter.",
         "Trusted: parse-back of the tabular layout; layout itself not judged.", "5/C17"),
 "C18": ("runtime monitor around every declaration call (recover per call) judged by a declaration model; declared names then used on a command line",
         "Exploration: sequences of 1-6 declarations through all entry points with colliding name lists and valid/invalid argument names, on the root and inside subcommand initializers, going on after recovered panics and after a Run, sometimes sharing destination variables: a call panics iff it conflicts with a name taken by an accepted declaration; for conflict-free sequences every name sets exactly its own variable.",
         "Trusted: model '^[A-Z][A-Z0-9_]*$ minus OPTIONS'; sequences abandoned after the first panic.", "5/C18"),
 "C19": ("runtime monitor: instrumented user value types log every Set/Clear; the call log is checked against the documented protocol",
         "Exploration: 13 value types (12 method-set variants plus an unhashable map-typed value) as options and argument, env none/valid/invalid, Set failing on a token, all spellings: exact call log at declaration (environment protocol) and at Run (one Clear iff Clear exists and the line bound something, Set with exactly the bound tokens in order, flags get Set(\"true\")), Set error => usage error with prefix-consistent logs.",
         "Trusted: the command-line reading used to compute the expected tokens (simple spec shapes with a unique derivation).", "5/C19"),
 "C20": ("Go race detector over concurrently built-and-run applications + outcome-equality monitors (concurrent vs solo, permuted sequential order, rebuild)",
         "Exploration of the schedules the runtime produced: 16 goroutines build and run applications from a pool whose solo outcomes were recorded; any race report or any outcome differing from solo is a violation; the same pool in random sequential orders, rebuilt twice, declared interleaved, reused as one object over several lines, nested inside another application's Action and meeting over a channel must also reproduce the solo outcomes, which are themselves compared with the reference verdict. Evidence counts the runs that actually overlapped.",
         "Trusted: race detector (sees executed accesses only); environment fixed before goroutines start; shared discarding error stream.", "5/C20"),
}

PENDING = {}

def main():
    props = [json.loads(l) for l in open(os.path.join(ROOT, "properties.jsonl"))]
    hooks_commits = subprocess.run(["git", "-C", "/repo", "log", "--format=%h", "--grep=^verif hooks"], capture_output=True, text=True).stdout.split()
    m = {
        "version": 1,
        "setup_cmd": "./run.sh setup",
        "hooks": {
            "guard": "verif",
            "enable": "go build -tags verif (the harness module in /verif/harness replaces github.com/jawher/mow.cli by /repo)",
            "baseline_off_cmd": "cd /repo && GOFLAGS=-mod=mod GOPROXY=off GOSUMDB=off GOTOOLCHAIN=local go test -vet=off -count=1 ./...",
            "source_commits": hooks_commits,
            "add_only": True,
        },
        "engines": [{
            "name": "vcheck",
            "path": "harness/",
            "serves_properties": sorted(CHECKS),
            "kind_free_text": "Go runtime-monitoring harness: seeded workload generators, boundary monitors around the real library (hooks, Action, exit stub, error stream, recording value types), "
                              "isolated worker processes with per-case journal and CPU/stack/heap watchdogs, executable reference semantics as oracle, race detector for C20",
        }],
        "checks": [],
        "not_applicable": [],
        "notes": "All checks: ./run.sh check <id> <tier>; VERIF_SEED selects the PRNG seed (default 1). Exit 2 = inconclusive (never a VIOLATION line). "
                 "Known findings: KNOWN_FINDINGS.txt. Replay: ./run.sh replay <file>. See DESIGN.md.",
    }
    for p in props:
        pid = p["id"]
        if pid in CHECKS:
            tech, text, note, ref = CHECKS[pid]
            m["checks"].append({
                "property_id": pid,
                "quick_cmd": "./run.sh check %s quick" % pid,
                "thorough_cmd": "./run.sh check %s thorough" % pid,
                "evidence_file": "/verif/evidence/%s.json" % pid,
                "replay_cmd_template": "./run.sh replay {path}",
                "engine": "vcheck",
                "level_claimed": {"category": "exploration", "text": text, "design_ref": "DESIGN.md section " + ref},
                "level_note": note,
                "technique": tech,
            })
        else:
            m["not_applicable"].append({"property_id": pid, "reason": PENDING.get(pid, "monitor designed (DESIGN.md section 5) but not built yet; not claimed until its check exists and is silent on the unchanged tree")})
    json.dump(m, open(os.path.join(ROOT, "MANIFEST.json"), "w"), indent=1)
    print("MANIFEST.json: %d checks, %d not claimed" % (len(m["checks"]), len(m["not_applicable"])))

if __name__ == "__main__":
    main()
