#!/usr/bin/env python3
"""Writes MANIFEST.json. The table below is the single place where claimed checks are listed."""
import json, os, subprocess

ROOT = os.path.dirname(os.path.abspath(__file__))

# id -> (technique, level text, level note, design ref)
CHECKS = {
 "C01": ("runtime differential monitor: real parser vs executable reference semantics on generated (spec, argv) cases in isolated workers; exact language-equality monitor on the compiled state graph (hooked)",
         "Exploration: the real library is run on grammar-generated specs and derived/mutated command lines and its accept/reject verdict is compared with an independent reference matcher; "
         "each compiled state graph (dumped through the VerifCompile hook) is compared for exact language equality with the reference automaton, which covers inputs of unbounded length for the structural part. "
         "Held means: no disagreement on the cases observed, outside the unclaimed zones.",
         "Trusted: the reference semantics of DESIGN.md 3.2/3.3 (own reader, Thompson automaton, memoised matcher); generators; token-level behaviour only up to the generated lengths.", "5/C01"),
}

PENDING = {}

def main():
    props = [json.loads(l) for l in open(os.path.join(ROOT, "properties.jsonl"))]
    hooks_commits = subprocess.run(["git", "-C", "/repo", "log", "--format=%h", "--grep=^verif hooks"], capture_output=True, text=True).stdout.split()
    m = {
        "version": 1,
        "setup_cmd": "./run.sh setup",
        "hooks": {
            "guard": "verif",
            "enable": "go build -tags verif (the harness module in /verif/harness replaces github.com/jawher/mow.cli by /repo)",
            "baseline_off_cmd": "cd /repo && GOFLAGS=-mod=mod GOPROXY=off GOSUMDB=off GOTOOLCHAIN=local go test -vet=off -count=1 ./...",
            "source_commits": hooks_commits,
            "add_only": True,
        },
        "engines": [{
            "name": "vcheck",
            "path": "harness/",
            "serves_properties": sorted(CHECKS),
            "kind_free_text": "Go runtime-monitoring harness: seeded workload generators, boundary monitors around the real library (hooks, Action, exit stub, error stream, recording value types), "
                              "isolated worker processes with per-case journal and CPU/stack/heap watchdogs, executable reference semantics as oracle, race detector for C20",
        }],
        "checks": [],
        "not_applicable": [],
        "notes": "All checks: ./run.sh check <id> <tier>; VERIF_SEED selects the PRNG seed (default 1). Exit 2 = inconclusive (never a VIOLATION line). "
                 "Known findings: KNOWN_FINDINGS.txt. Replay: ./run.sh replay <file>. See DESIGN.md.",
    }
    for p in props:
        pid = p["id"]
        if pid in CHECKS:
            tech, text, note, ref = CHECKS[pid]
            m["checks"].append({
                "property_id": pid,
                "quick_cmd": "./run.sh check %s quick" % pid,
                "thorough_cmd": "./run.sh check %s thorough" % pid,
                "evidence_file": "/verif/evidence/%s.json" % pid,
                "replay_cmd_template": "./run.sh replay {path}",
                "engine": "vcheck",
                "level_claimed": {"category": "exploration", "text": text, "design_ref": "DESIGN.md section " + ref},
                "level_note": note,
                "technique": tech,
            })
        else:
            m["not_applicable"].append({"property_id": pid, "reason": PENDING.get(pid, "monitor designed (DESIGN.md section 5) but not built yet; not claimed until its check exists and is silent on the unchanged tree")})
    json.dump(m, open(os.path.join(ROOT, "MANIFEST.json"), "w"), indent=1)
    print("MANIFEST.json: %d checks, %d not claimed" % (len(m["checks"]), len(m["not_applicable"])))

if __name__ == "__main__":
    main()
