#!/usr/bin/env python3
"""Writes MANIFEST.json. The table below is the single place where claimed checks are listed."""
import json, os, subprocess

ROOT = os.path.dirname(os.path.abspath(__file__))

# id -> (technique, level text, level note, design ref)
CHECKS = {
 "C01": ("runtime differential monitor: real parser vs executable reference semantics on generated (spec, argv) cases in isolated workers; exact language-equality monitor on the compiled state graph (hooked)",
         "Exploration: the real library is run on grammar-generated specs and derived/mutated command lines and its accept/reject verdict is compared with an independent reference matcher; "
         "each compiled state graph (dumped through the VerifCompile hook) is compared for exact language equality with the reference automaton, which covers inputs of unbounded length for the structural part. "
         "Held means: no disagreement on the cases observed, outside the unclaimed zones.",
         "Trusted: the reference semantics of DESIGN.md 3.2/3.3 (own reader, Thompson automaton, memoised matcher); generators; token-level behaviour only up to the generated lengths.", "5/C01"),
 "C02": ("runtime monitor with recording value types (every Set logged) judged by an admission oracle over the reference automaton; twin run with the built-in types",
         "Exploration: for every accepted generated command line the values recorded inside the Action must be consumable, token for token and in order, by some derivation of the reference automaton (nothing invented, dropped, duplicated, moved; tokens after -- verbatim); for specs without -- the option part must equal the reader's occurrence list, and a twin run with built-in variable types must agree.",
         "Trusted: admission search of DESIGN.md 3.4; recording types; unclaimed zones skipped and counted.", "5/C02"),
 "C03": ("crash / CPU-budget watchdog around isolated worker processes; hostile spec, argv and environment-subset workload",
         "Exploration with a liveness watchdog: every case (compile + parse under all 32 subsets of env-backed options) runs in an isolated worker with a journal; worker death, an undocumented panic, a position outside the string or more than 5 CPU-seconds for one case is a violation attributed to the journalled input. 'Never hangs' is restated as this bounded progress.",
         "Trusted: getrusage CPU accounting, SetMaxStack, the journal surviving a process crash (page cache). Inputs bounded: spec <= 256 bytes, nesting <= 64, <= 5 options, argv <= 16 tokens.", "5/C03"),
 "C08": ("bounded-exhaustive + random differential monitor of the real lexer/parser (via Run and the VerifTokenize hook) against a reference recogniser; token-extent monitor",
         "Exploration, exhaustive over two finite families (all strings over 19 character classes up to length 4/6, all sequences of up to 4/6 of 15 tokens) plus random longer strings: compile-or-reject must agree with the reference grammar, the reported position must lie in the offending lexeme / at the first token the LL(1) reading fails on, no hook or Action may run before the panic (also for a subcommand's spec), and the hooked token stream must tile the non-blank bytes of the spec exactly.",
         "Trusted: reference grammar of DESIGN.md 3.1 (own lexer and LL(1) parser); '--' glued to a non-name character is unclaimed.", "5/C08"),
 "C09": ("metamorphic runtime monitor (-- inserted into the trailing positional block of the same real application) + reference-judged spec-level -- workloads",
         "Exploration: (T) inserting -- at any point of the trailing block of non-dash positionals, including the very end, must not change acceptance or any bound value; (S,V) specs containing -- and hostile dash-prefixed tails are judged by the reference for acceptance and verbatim binding (first -- bound to nothing, later ones verbatim), and 'head tail' must equal 'head -- tail' wherever the reference admits one and the same single binding.",
         "Trusted: the reader of DESIGN.md 3.2 (to find the trailing block) and, for S/V, the reference matcher; zone-4 cases skipped and counted.", "5/C09"),
 "C10": ("metamorphic runtime monitor: original vs re-spelled command line on the same real application",
         "Exploration: every option occurrence of generated command lines (accepted or not) is re-rendered with a random admissible documented spelling (short/long, =, attached, separate, folded in any grouping, any alias) and the outcome must be identical; the evidence lists how often each spelling form was produced.",
         "Trusted: the reader of DESIGN.md 3.2 (decides what an occurrence is). Specs with a spec-level -- excluded (occurrences can be re-read as positionals).", "5/C10"),
 "C11": ("metamorphic runtime monitor: original vs the same line with two adjacent occurrences of different options swapped",
         "Exploration: an adjacent pair of occurrences of different options (1-token, 2-token, folded forms) is swapped and the outcome must be identical; half pure swaps with identical spellings, half with re-drawn spellings and folding.",
         "Trusted: the reader of DESIGN.md 3.2. Specs with a spec-level -- excluded.", "5/C11"),
 "C12": ("metamorphic runtime monitor: the same real application with and without environment-backed options; targeted families for required and repeated options",
         "Exploration: accepted without environment => accepted with any subset of options backed by set valid variables, same values for options written on the command line (specs without --); a required option absent from the line is satisfied by its variable (with a negative control); an env-backed option written 1-4 times under [OPTIONS], a folded group, -e..., [-e]... is accepted with all values bound.",
         "Trusted: the worker sets/unsets the variables around the declarations, one case at a time.", "5/C12"),
 "C16": ("metamorphic runtime monitor: twin real applications (no spec vs explicit [OPTIONS] ARG...) + usage line read back from the help",
         "Exploration: random declaration sets, twin apps run on derived and mutated command lines must have identical outcomes, the reference verdict for the implicit spec must agree, and both usage lines must read 'Usage: app <spec>'.",
         "Trusted: outcome comparison through recording types; usage line = first 'Usage:' line of --help output.", "5/C16"),
}

PENDING = {}

def main():
    props = [json.loads(l) for l in open(os.path.join(ROOT, "properties.jsonl"))]
    hooks_commits = subprocess.run(["git", "-C", "/repo", "log", "--format=%h", "--grep=^verif hooks"], capture_output=True, text=True).stdout.split()
    m = {
        "version": 1,
        "setup_cmd": "./run.sh setup",
        "hooks": {
            "guard": "verif",
            "enable": "go build -tags verif (the harness module in /verif/harness replaces github.com/jawher/mow.cli by /repo)",
            "baseline_off_cmd": "cd /repo && GOFLAGS=-mod=mod GOPROXY=off GOSUMDB=off GOTOOLCHAIN=local go test -vet=off -count=1 ./...",
            "source_commits": hooks_commits,
            "add_only": True,
        },
        "engines": [{
            "name": "vcheck",
            "path": "harness/",
            "serves_properties": sorted(CHECKS),
            "kind_free_text": "Go runtime-monitoring harness: seeded workload generators, boundary monitors around the real library (hooks, Action, exit stub, error stream, recording value types), "
                              "isolated worker processes with per-case journal and CPU/stack/heap watchdogs, executable reference semantics as oracle, race detector for C20",
        }],
        "checks": [],
        "not_applicable": [],
        "notes": "All checks: ./run.sh check <id> <tier>; VERIF_SEED selects the PRNG seed (default 1). Exit 2 = inconclusive (never a VIOLATION line). "
                 "Known findings: KNOWN_FINDINGS.txt. Replay: ./run.sh replay <file>. See DESIGN.md.",
    }
    for p in props:
        pid = p["id"]
        if pid in CHECKS:
            tech, text, note, ref = CHECKS[pid]
            m["checks"].append({
                "property_id": pid,
                "quick_cmd": "./run.sh check %s quick" % pid,
                "thorough_cmd": "./run.sh check %s thorough" % pid,
                "evidence_file": "/verif/evidence/%s.json" % pid,
                "replay_cmd_template": "./run.sh replay {path}",
                "engine": "vcheck",
                "level_claimed": {"category": "exploration", "text": text, "design_ref": "DESIGN.md section " + ref},
                "level_note": note,
                "technique": tech,
            })
        else:
            m["not_applicable"].append({"property_id": pid, "reason": PENDING.get(pid, "monitor designed (DESIGN.md section 5) but not built yet; not claimed until its check exists and is silent on the unchanged tree")})
    json.dump(m, open(os.path.join(ROOT, "MANIFEST.json"), "w"), indent=1)
    print("MANIFEST.json: %d checks, %d not claimed" % (len(m["checks"]), len(m["not_applicable"])))

if __name__ == "__main__":
    main()
